#[cfg(kani)]
pub use matrix::{verif_stub_invert, verif_stub_mul_arr};
