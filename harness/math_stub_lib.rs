#[cfg(kani)]
pub use matrix::verif_stub_mul_arr;
