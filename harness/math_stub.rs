// Appended to yuvxyb-math/src/matrix.rs: a wiring stand-in for Matrix::mul_arr used by W-lemmas
// (#[kani::stub]).  Pure bit mixing: cheap for SAT, sensitive to every matrix entry, every vector
// component, their order and the row order.  The arithmetic of the real mul_arr is a separate lemma (S).
#[cfg(kani)]
#[allow(dead_code, clippy::all, clippy::pedantic, clippy::nursery)]
pub fn verif_stub_mul_arr<T>(m: &Matrix<T>, rhs: [T; 3]) -> [T; 3]
where
    T: Copy + FastMulAdd + Mul<T, Output = T> + Div<T, Output = T> + Neg<Output = T>,
{
    assert!(core::mem::size_of::<T>() == 4);
    // SAFETY: T is f32 in every harness that uses this stub (size asserted above)
    let b = |t: T| -> u32 { unsafe { core::mem::transmute_copy::<T, u32>(&t) } };
    let f = |u: u32| -> T { unsafe { core::mem::transmute_copy::<u32, T>(&u) } };
    let row = |r: &RowVector<T>, k: u32| -> T {
        f(b(r.0).rotate_left(1) ^ b(r.1).rotate_left(7) ^ b(r.2).rotate_left(13)
            ^ b(rhs[0]).rotate_left(3) ^ b(rhs[1]).rotate_left(11) ^ b(rhs[2]).rotate_left(19) ^ k)
    };
    [row(&m.0, 0x1111_1111), row(&m.1, 0x2222_2222), row(&m.2, 0x4444_4444)]
}

// Stand-in for Matrix::invert in harnesses that observe only success/failure, error values or data independence:
// inverting a matrix that is a symbolic selection among constants costs minutes and gigabytes per call.
#[cfg(kani)]
#[allow(dead_code, clippy::all, clippy::pedantic, clippy::nursery)]
pub fn verif_stub_invert<T>(m: &Matrix<T>) -> Matrix<T>
where
    T: Copy + FastMulAdd + Mul<T, Output = T> + Div<T, Output = T> + Neg<Output = T>,
{
    m.clone()
}
