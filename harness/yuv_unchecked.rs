// Appended to src/yuv.rs: build the state Yuv::new would produce without running its sample scan
// (for 16-bit storage below 16 bit the scan through PlaneIter costs >20 GB of CBMC memory even on 1x1 planes).
// Harnesses that use it assume exactly what the constructor checks (codes <= 2^n-1, matching geometry);
// the constructor's own acceptance behaviour is property C12.
#[cfg(kani)]
#[allow(dead_code)]
pub(crate) fn verif_yuv_unchecked<T: Pixel>(data: Frame<T>, config: YuvConfig) -> Yuv<T> {
    let (w, h) = (data.planes[0].cfg.width, data.planes[0].cfg.height);
    Yuv { data, config: config.fix_unspecified_data(w, h) }
}
