// Shared by the Kani harness modules and the native replay/extract module.
// Exhaustive matches: a new upstream enum variant is a compile error here, not a silent gap.
#[cfg(any(kani, verif_native))]
#[allow(dead_code, clippy::all, clippy::pedantic, clippy::nursery)]
pub(crate) mod verif_common {
    pub use av_data::pixel::{ColorPrimaries as CP, MatrixCoefficients as MC, TransferCharacteristic as TC};

    pub const MC_ALL: [MC; 15] = [
        MC::Identity, MC::BT709, MC::Unspecified, MC::Reserved, MC::BT470M, MC::BT470BG, MC::ST170M, MC::ST240M,
        MC::YCgCo, MC::BT2020NonConstantLuminance, MC::BT2020ConstantLuminance, MC::ST2085,
        MC::ChromaticityDerivedNonConstantLuminance, MC::ChromaticityDerivedConstantLuminance, MC::ICtCp,
    ];
    pub const CP_ALL: [CP; 14] = [
        CP::Reserved0, CP::BT709, CP::Unspecified, CP::Reserved, CP::BT470M, CP::BT470BG, CP::ST170M, CP::ST240M,
        CP::Film, CP::BT2020, CP::ST428, CP::P3DCI, CP::P3Display, CP::Tech3213,
    ];
    pub const TC_ALL: [TC; 19] = [
        TC::Reserved0, TC::BT1886, TC::Unspecified, TC::Reserved, TC::BT470M, TC::BT470BG, TC::ST170M, TC::ST240M,
        TC::Linear, TC::Logarithmic100, TC::Logarithmic316, TC::XVYCC, TC::BT1361E, TC::SRGB, TC::BT2020Ten,
        TC::BT2020Twelve, TC::PerceptualQuantizer, TC::ST428, TC::HybridLogGamma,
    ];
    // index = position in *_ALL (not the H.273 code point)
    pub const fn mc_idx(m: MC) -> u8 {
        match m {
            MC::Identity => 0, MC::BT709 => 1, MC::Unspecified => 2, MC::Reserved => 3, MC::BT470M => 4,
            MC::BT470BG => 5, MC::ST170M => 6, MC::ST240M => 7, MC::YCgCo => 8,
            MC::BT2020NonConstantLuminance => 9, MC::BT2020ConstantLuminance => 10, MC::ST2085 => 11,
            MC::ChromaticityDerivedNonConstantLuminance => 12, MC::ChromaticityDerivedConstantLuminance => 13,
            MC::ICtCp => 14,
        }
    }
    pub const fn cp_idx(p: CP) -> u8 {
        match p {
            CP::Reserved0 => 0, CP::BT709 => 1, CP::Unspecified => 2, CP::Reserved => 3, CP::BT470M => 4,
            CP::BT470BG => 5, CP::ST170M => 6, CP::ST240M => 7, CP::Film => 8, CP::BT2020 => 9, CP::ST428 => 10,
            CP::P3DCI => 11, CP::P3Display => 12, CP::Tech3213 => 13,
        }
    }
    pub const fn tc_idx(t: TC) -> u8 {
        match t {
            TC::Reserved0 => 0, TC::BT1886 => 1, TC::Unspecified => 2, TC::Reserved => 3, TC::BT470M => 4,
            TC::BT470BG => 5, TC::ST170M => 6, TC::ST240M => 7, TC::Linear => 8, TC::Logarithmic100 => 9,
            TC::Logarithmic316 => 10, TC::XVYCC => 11, TC::BT1361E => 12, TC::SRGB => 13, TC::BT2020Ten => 14,
            TC::BT2020Twelve => 15, TC::PerceptualQuantizer => 16, TC::ST428 => 17, TC::HybridLogGamma => 18,
        }
    }
    pub fn mc_at(i: u8) -> MC { MC_ALL[(i as usize) % 15] }
    pub fn cp_at(i: u8) -> CP { CP_ALL[(i as usize) % 14] }
    pub fn tc_at(i: u8) -> TC { TC_ALL[(i as usize) % 19] }

    /// the 7 standard non-constant-luminance matrices of C01/C02/C08
    pub const MC_STD: [MC; 7] = [MC::BT709, MC::BT470M, MC::BT470BG, MC::ST170M, MC::ST240M,
        MC::BT2020NonConstantLuminance, MC::YCgCo];
    /// the 14 supported curves
    pub const TC_SUP: [TC; 14] = [TC::BT1886, TC::ST170M, TC::ST240M, TC::BT2020Ten, TC::BT2020Twelve, TC::BT470M,
        TC::BT470BG, TC::SRGB, TC::XVYCC, TC::Logarithmic100, TC::Logarithmic316, TC::PerceptualQuantizer,
        TC::HybridLogGamma, TC::Linear];
    /// the 11 supported primaries
    pub const CP_SUP: [CP; 11] = [CP::BT709, CP::BT470M, CP::BT470BG, CP::ST170M, CP::ST240M, CP::Film, CP::BT2020,
        CP::ST428, CP::P3DCI, CP::P3Display, CP::Tech3213];
}
