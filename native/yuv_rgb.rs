#[cfg(verif_native)]
#[allow(dead_code, clippy::all, clippy::pedantic, clippy::nursery)]
pub mod verif_native_yr {
    use super::*;
    pub use super::transfer::verif_native_tr as tr;
    pub fn scale_offset(to_float: bool, bd: u8, full: bool, chroma: bool) -> (f32, f32) {
        if to_float { get_scale_offset::<true>(bd, full, chroma) } else { get_scale_offset::<false>(bd, full, chroma) }
    }
    pub fn yuv_to_rgb_matrix(cfg: YuvConfig) -> Result<[[f32; 3]; 3], crate::ConversionError> {
        color::get_yuv_to_rgb_matrix(cfg).map(|m| m.values())
    }
    pub fn rgb_to_yuv_matrix(cfg: YuvConfig) -> Result<[[f32; 3]; 3], crate::ConversionError> {
        color::get_rgb_to_yuv_matrix(cfg).map(|m| m.values())
    }
    pub fn primaries_matrix(i: av_data::pixel::ColorPrimaries, o: av_data::pixel::ColorPrimaries)
        -> Result<[[f32; 3]; 3], crate::ConversionError> {
        color::verif_native_color::composite(i, o)
    }
    pub fn k_to_f32_luma_u16(v: u16, bd: u8, full: bool) -> f32 {
        let (s, o) = get_scale_offset::<true>(bd, full, false);
        to_f32_luma(v, s, o)
    }
    pub fn k_to_f32_chroma_u16(v: u16, bd: u8, full: bool) -> f32 {
        let (s, o) = get_scale_offset::<true>(bd, full, true);
        to_f32_chroma(v, s, o)
    }
    pub fn k_from_f32_luma_u16(v: f32, bd: u8, full: bool) -> u16 {
        let (s, o) = get_scale_offset::<false>(bd, full, false);
        from_f32_luma::<u16>(v, s, o, bd)
    }
    pub fn k_from_f32_chroma_u16(v: f32, bd: u8, full: bool) -> u16 {
        let (s, o) = get_scale_offset::<false>(bd, full, true);
        from_f32_chroma::<u16>(v, s, o, bd, full)
    }
}
