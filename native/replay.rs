    // ---------------------------------------------------------------- replay
    fn replay(kind: &str, a: &[String]) {
        match kind {
            // math <fn> <bits..>: run the helper; UB is only observable under Miri
            "math" => {
                let r = match a[0].as_str() {
                    "powf" => yuvxyb_math::powf(fb(&a[1]), fb(&a[2])),
                    "expf" => yuvxyb_math::expf(fb(&a[1])),
                    "cbrtf" => yuvxyb_math::cbrtf(fb(&a[1])),
                    _ => panic!("fn"),
                };
                out(false, format!("{} returned {:e} (bits {:#x}); UB not observable natively", a[0], r, r.to_bits()));
            }
            _ => { eprintln!("unknown replay kind {}", kind); std::process::exit(64); }
        }
    }
