    // ---------------------------------------------------------------- replay
    fn replay(kind: &str, a: &[String]) {
        match kind {
            // math <fn> <bits..>: run the helper; UB is only observable under Miri
            "math" => {
                // the C18 contracts as written, f64 libm as the oracle
                let (r, bad): (f32, Option<String>) = match a[0].as_str() {
                    "powf" => {
                        let (x, y) = (fb(&a[1]), fb(&a[2]));
                        let r = yuvxyb_math::powf(x, y);
                        let t = f64::from(x).powf(f64::from(y));
                        let dom = x.is_normal() && x > 0.0 && y.abs() <= 80.0 && t >= 1e-35 && t <= 1e35;
                        let rel = ((f64::from(r) - t) / t).abs();
                        (r, if dom && rel > 2.5e-4 + 8e-6 * f64::from(y.abs()) { Some(format!("powf({},{}) = {} vs {} (rel {:.3e})", x, y, r, t, rel)) } else { None })
                    }
                    "expf" => {
                        let x = fb(&a[1]);
                        let r = yuvxyb_math::expf(x);
                        let t = f64::from(x).exp();
                        let bad = if x >= 89.0 && x <= 1e38 && r != f32::INFINITY { Some(format!("expf({}) = {} instead of +inf", x, r)) }
                            else if x <= -88.0 && x >= -1e38 && r != 0.0 { Some(format!("expf({}) = {} instead of 0", x, r)) }
                            else if x >= -85.0 && x <= 85.0 && ((f64::from(r) - t) / t).abs() > 1e-5 { Some(format!("expf({}) = {} vs {} ", x, r, t)) } else { None };
                        (r, bad)
                    }
                    "cbrtf" => {
                        let x = fb(&a[1]);
                        let r = yuvxyb_math::cbrtf(x);
                        let t = f64::from(x).cbrt();
                        let ulp = f64::from(f32::from_bits(r.abs().to_bits() + 1)) - f64::from(r.abs());
                        let bad = if x.is_normal() && (f64::from(r) - t).abs() > ulp { Some(format!("cbrtf({}) = {} vs {} (> 1 ulp)", x, r, t)) }
                            else if x.is_normal() && yuvxyb_math::cbrtf(-x).to_bits() != (-r).to_bits() { Some(format!("cbrtf not odd at {}", x)) } else { None };
                        (r, bad)
                    }
                    _ => panic!("fn"),
                };
                out(bad.is_some(), bad.unwrap_or_else(|| format!("{} returned {:e}: contract holds natively (UB is only observable under Miri)", a[0], r)));
            }
            // conv <what> ...: run one public conversion on a 1-pixel image (no-panic / finite / valid-code clauses)
            "conv" => {
                let fin = |p: &[f32; 3]| p[0].is_finite() && p[1].is_finite() && p[2].is_finite();
                let unit = |x: f32| x >= 0.0 && x <= 1.0;
                match a[0].as_str() {
                    "tr" => {
                        let t = TC_ALL[ix(&a[2])];
                        let x = fb(&a[3]);
                        let r = if a[1] == "lin" {
                            LinearRgb::try_from(Rgb::new(vec![[x, 0.25, 1.0]], 1, 1, t, CP::BT709).unwrap()).map(|o| o.data()[0])
                        } else {
                            Rgb::try_from((LinearRgb::new(vec![[x, 0.25, 1.0]], 1, 1).unwrap(), t, CP::BT709)).map(|o| o.data()[0])
                        };
                        match r {
                            Ok(o) => out(unit(x) && !fin(&o), format!("{:?} {} x={:e} -> {:?}", t, a[1], x, o)),
                            Err(e) => out(true, format!("{:?} {} failed: {:?}", t, a[1], e)),
                        }
                    }
                    "tr2px" => {
                        let r = LinearRgb::try_from(Rgb::new(vec![[fb(&a[1]), 0.5, 0.0], [1.0, 0.0, fb(&a[2])]], 2, 1, TC::SRGB, CP::BT709).unwrap()).unwrap();
                        out(!(r.data().len() == 2 && r.width() == 2 && r.height() == 1), format!("{:?}", r.data()));
                    }
                    "pr" => {
                        let p = CP_ALL[ix(&a[2])];
                        let px = [fb(&a[3]), fb(&a[4]), fb(&a[5])];
                        let r = if a[1] == "in" {
                            LinearRgb::try_from(Rgb::new(vec![px], 1, 1, TC::Linear, p).unwrap()).map(|o| o.data()[0])
                        } else {
                            Rgb::try_from((LinearRgb::new(vec![px], 1, 1).unwrap(), TC::Linear, p)).map(|o| o.data()[0])
                        };
                        match r {
                            Ok(o) => out(unit(px[0]) && unit(px[1]) && unit(px[2]) && !fin(&o), format!("{:?} {:?} -> {:?}", p, px, o)),
                            Err(e) => out(true, format!("{:?} failed: {:?}", p, e)),
                        }
                    }
                    "xyb" | "hsl" => {
                        let px = [fb(&a[2]), fb(&a[3]), fb(&a[4])];
                        let l = || LinearRgb::new(vec![px], 1, 1).unwrap();
                        let o = match (a[0].as_str(), a[1].as_str()) {
                            ("xyb", "fwd") => Xyb::from(l()).data()[0],
                            ("xyb", _) => LinearRgb::from(Xyb::new(vec![px], 1, 1).unwrap()).data()[0],
                            ("hsl", "fwd") => Hsl::from(l()).data()[0],
                            _ => LinearRgb::from(Hsl::new(vec![px], 1, 1).unwrap()).data()[0],
                        };
                        let numeric = !(a[0] == "hsl" && a[1] != "fwd");
                        out(numeric && unit(px[0]) && unit(px[1]) && unit(px[2]) && !fin(&o), format!("{:?} -> {:?}", px, o));
                    }
                    "enc" => {
                        let bd = (ix(&a[2]) as u8);
                        let full = a[3] == "1" || a[3] == "true";
                        let mc = MC_ALL[ix(&a[4])];
                        let px = [fb(&a[5]), fb(&a[6]), fb(&a[7])];
                        let rgb = Rgb::new(vec![px], 1, 1, TC::BT1886, CP::BT709).unwrap();
                        let c = cfg(bd, full, mc, 0, 0);
                        let maxv = (1u32 << bd) - 1;
                        let (ok, d) = if a[1] == "u8" {
                            match Yuv::<u8>::try_from((&rgb, c)) {
                                Ok(y) => ((0..3).all(|p| u32::from(y.data()[p].p(0, 0)) <= maxv) && y.config() == c && y.width() == 1 && y.height() == 1,
                                          format!("{:?}", [y.data()[0].p(0, 0), y.data()[1].p(0, 0), y.data()[2].p(0, 0)])),
                                Err(e) => (false, format!("{:?}", e)),
                            }
                        } else {
                            match Yuv::<u16>::try_from((&rgb, c)) {
                                Ok(y) => ((0..3).all(|p| u32::from(y.data()[p].p(0, 0)) <= maxv) && y.config() == c && y.width() == 1 && y.height() == 1,
                                          format!("{:?}", [y.data()[0].p(0, 0), y.data()[1].p(0, 0), y.data()[2].p(0, 0)])),
                                Err(e) => (false, format!("{:?}", e)),
                            }
                        };
                        out(!ok, format!("{:?} -> {}", px, d));
                    }
                    _ => panic!("conv kind"),
                }
            }
            // geom <T> <bd> <ssx> <ssy> <full> then per plane: bw bh w h xo yo xdec ydec (3 planes); zero samples.
            // Accepted frames are decoded through the public API; an out-of-bounds get_unchecked aborts in the dev profile.
            "geom" => {
                fn build<T: Pixel>(a: &[String]) -> (Frame<T>, YuvConfig) {
                    let n = |i: usize| a[i].parse::<usize>().unwrap();
                    let mut planes = Vec::new();
                    for k in 0..3 {
                        let o = 5 + 8 * k;
                        let (bw, bh) = (n(o), n(o + 1));
                        let buf = vec![T::cast_from(0u8); bw * bh];
                        let mut p = Plane::from_slice(&buf, bw);
                        p.cfg.width = n(o + 2); p.cfg.height = n(o + 3); p.cfg.xorigin = n(o + 4); p.cfg.yorigin = n(o + 5);
                        p.cfg.xdec = n(o + 6); p.cfg.ydec = n(o + 7);
                        p.cfg.xpad = bw - p.cfg.xorigin - p.cfg.width; p.cfg.ypad = bh - p.cfg.yorigin - p.cfg.height;
                        planes.push(p);
                    }
                    let v = planes.pop().unwrap(); let u = planes.pop().unwrap(); let y = planes.pop().unwrap();
                    (Frame { planes: [y, u, v] }, cfg(n(1) as u8, a[4] == "1", MC::BT709, n(2) as u8, n(3) as u8))
                }
                fn run<T: Pixel>(a: &[String]) {
                    let (f, c) = build::<T>(a);
                    let l = f.planes[0].cfg.clone(); let u = f.planes[1].cfg.clone(); let v = f.planes[2].cfg.clone();
                    let (sx, sy) = (c.subsampling_x as usize, c.subsampling_y as usize);
                    let well = u.xdec == sx && v.xdec == sx && u.ydec == sy && v.ydec == sy && l.width % (1 << sx) == 0 && l.height % (1 << sy) == 0
                        && u.width == l.width >> sx && v.width == l.width >> sx && u.height == l.height >> sy && v.height == l.height >> sy;
                    match Yuv::new(f, c) {
                        Ok(y) => {
                            let r = Rgb::try_from(&y).unwrap();   // aborts on out-of-bounds get_unchecked (dev profile)
                            out(!well || r.data().len() != l.width * l.height, format!("accepted (well-formed={}), decoded {} pixels", well, r.data().len()));
                        }
                        Err(e) => out(well, format!("rejected with {:?} (well-formed={})", e, well)),
                    }
                }
                if a[0] == "u8" { run::<u8>(a) } else { run::<u16>(a) }
            }

            // vecnew <Type> <len> <w> <h>
            "vecnew" => {
                let (l, w, h) = (ix(&a[1]), a[2].parse::<usize>().unwrap(), a[3].parse::<usize>().unwrap());
                let d = vec![[0.5f32, 0.25, 1.0]; l];
                let (ok, dims) = match a[0].as_str() {
                    "Rgb" => match Rgb::new(d, w, h, TC::SRGB, CP::BT709) { Ok(x) => (true, (x.width(), x.height(), x.data().len())), Err(_) => (false, (0, 0, 0)) },
                    "LinearRgb" => match LinearRgb::new(d, w, h) { Ok(x) => (true, (x.width(), x.height(), x.data().len())), Err(_) => (false, (0, 0, 0)) },
                    "Xyb" => match Xyb::new(d, w, h) { Ok(x) => (true, (x.width(), x.height(), x.data().len())), Err(_) => (false, (0, 0, 0)) },
                    _ => match Hsl::new(d, w, h) { Ok(x) => (true, (x.width(), x.height(), x.data().len())), Err(_) => (false, (0, 0, 0)) },
                };
                let want = w.checked_mul(h) == Some(l);
                out(ok != want || (ok && dims != (w, h, l)), format!("{}::new(len {}, {}, {}) ok={} want={}", a[0], l, w, h, ok, want));
            }

            // meta <what> <mc> <cp> <tc> <cp2> <tc2>: the C14 contract on one concrete metadata triple
            "meta" => {
                use crate::ConversionError as E;
                let (mc, cp, tc) = (MC_ALL[ix(&a[1])], CP_ALL[ix(&a[2])], TC_ALL[ix(&a[3])]);
                let (cp2, tc2) = (CP_ALL[ix(&a[4])], TC_ALL[ix(&a[5])]);
                let std_mc = MC_STD.contains(&mc); let sup_tc = TC_SUP.contains(&tc); let sup_cp = CP_SUP.contains(&cp);
                let c = |cp: CP, tc: TC| YuvConfig { transfer_characteristics: tc, color_primaries: cp, ..cfg(8, false, mc, 0, 0) };
                let y1 = |cc: YuvConfig| Yuv::new(Frame { planes: [Plane::from_slice(&[100u8], 1), Plane::from_slice(&[120u8], 1), Plane::from_slice(&[140u8], 1)] }, cc).unwrap();
                let names = |e: E, um: bool, up: bool, ut: bool| match e {
                    E::UnsupportedMatrixCoefficients => um && !std_mc,
                    E::UnsupportedColorPrimaries => (up && !sup_cp) || (um && !std_mc && (cp == CP::ST428 || !sup_cp)),
                    E::UnsupportedTransferCharacteristic => ut && !sup_tc,
                    _ => false,
                };
                let px = vec![[0.25f32, 0.5, 0.75]];
                let mut bad = Vec::new();
                match a[0].as_str() {
                    "yuvrgb" => {
                        let d = Rgb::try_from(&y1(c(cp, tc)));
                        let e = Yuv::<u8>::try_from((&Rgb::new(px.clone(), 1, 1, tc, cp).unwrap(), c(cp, tc)));
                        if d.is_ok() != e.is_ok() { bad.push("asymmetric".to_string()); }
                        if std_mc && d.is_err() { bad.push("standard matrix failed".to_string()); }
                        if let (Err(x), Err(y)) = (&d, &e) { if x != y { bad.push(format!("different errors {:?} {:?}", x, y)); } if !names(*x, true, false, false) { bad.push(format!("{:?} names no offender", x)); } }
                    }
                    "ignore" => {
                        if std_mc {
                            let p = Rgb::try_from(&y1(c(cp, tc))).unwrap(); let q = Rgb::try_from(&y1(c(cp2, tc2))).unwrap();
                            if p.data() != q.data() { bad.push("decode depends on transfer/primaries".to_string()); }
                            let e1 = Yuv::<u8>::try_from((&Rgb::new(px.clone(), 1, 1, tc, cp).unwrap(), c(cp, tc))).unwrap();
                            let e2 = Yuv::<u8>::try_from((&Rgb::new(px.clone(), 1, 1, tc2, cp2).unwrap(), c(cp2, tc2))).unwrap();
                            if (0..3).any(|k| e1.data()[k].p(0, 0) != e2.data()[k].p(0, 0)) { bad.push("encode depends on transfer/primaries".to_string()); }
                        }
                    }
                    "gamma" => {
                        let f = LinearRgb::try_from(Rgb::new(px.clone(), 1, 1, tc, cp).unwrap());
                        let r = Rgb::try_from((LinearRgb::new(px.clone(), 1, 1).unwrap(), tc, cp));
                        if f.is_ok() != r.is_ok() { bad.push("asymmetric".to_string()); }
                        if sup_tc && sup_cp && f.is_err() { bad.push("supported pair failed".to_string()); }
                        if let (Err(x), Err(y)) = (&f, &r) { if x != y { bad.push(format!("different errors {:?} {:?}", x, y)); } if !names(*x, false, true, true) { bad.push(format!("{:?} names no offender", x)); } }
                    }
                    _ => {
                        let f = LinearRgb::try_from(&y1(c(cp, tc)));
                        let r = Yuv::<u8>::try_from((LinearRgb::new(px.clone(), 1, 1).unwrap(), c(cp, tc)));
                        let x = Xyb::try_from(&y1(c(cp, tc)));
                        let z = Yuv::<u8>::try_from((Xyb::new(vec![[0.0, 0.5, 0.5]], 1, 1).unwrap(), c(cp, tc)));
                        if f.is_ok() != r.is_ok() || x.is_ok() != z.is_ok() || x.is_ok() != f.is_ok() { bad.push("asymmetric".to_string()); }
                        if std_mc && sup_tc && sup_cp && (f.is_err() || x.is_err()) { bad.push("standard combination failed".to_string()); }
                        for e in [f.as_ref().err(), x.as_ref().err(), r.as_ref().err(), z.as_ref().err()].into_iter().flatten() { if !names(*e, true, true, true) { bad.push(format!("{:?} names no offender", e)); } }
                    }
                }
                out(!bad.is_empty(), format!("{:?}/{:?}/{:?}: {}", mc, cp, tc, if bad.is_empty() { "contract holds".to_string() } else { bad.join("; ") }));
            }

            // unspec yuvres m p t w h | rgbres p t | label|labelx m p t r g b
            "unspec" => {
                match a[0].as_str() {
                    "yuvres" => {
                        let (mc, cp, tc) = (MC_ALL[ix(&a[1])], CP_ALL[ix(&a[2])], TC_ALL[ix(&a[3])]);
                        let (w, h) = (a[4].parse::<usize>().unwrap(), a[5].parse::<usize>().unwrap());
                        let mut f: Frame<u8> = Frame { planes: [Plane::from_slice(&[1u8], 1), Plane::from_slice(&[2u8], 1), Plane::from_slice(&[3u8], 1)] };
                        for p in 0..3 { f.planes[p].cfg.width = w; f.planes[p].cfg.height = h; }
                        let c = YuvConfig { transfer_characteristics: tc, color_primaries: cp, ..cfg(8, false, mc, 0, 0) };
                        let r = Yuv::new(f, c).unwrap().config();
                        let wm = if mc != MC::Unspecified { mc } else if w >= 1280 || h > 576 { MC::BT709 } else if h == 576 { MC::BT470BG } else { MC::ST170M };
                        let wp = if cp != CP::Unspecified { cp } else if wm == MC::BT2020NonConstantLuminance || wm == MC::BT2020ConstantLuminance { CP::BT2020 }
                            else if wm == MC::BT709 || w >= 1280 || h > 576 { CP::BT709 } else if h == 576 { CP::BT470BG } else if h == 480 || h == 488 { CP::ST170M } else { CP::BT709 };
                        let wt = if tc == TC::Unspecified { TC::BT1886 } else { tc };
                        out(r.matrix_coefficients != wm || r.color_primaries != wp || r.transfer_characteristics != wt,
                            format!("{}x{} {:?}/{:?}/{:?} -> {:?}/{:?}/{:?}, documented {:?}/{:?}/{:?}", w, h, mc, cp, tc, r.matrix_coefficients, r.color_primaries, r.transfer_characteristics, wm, wp, wt));
                    }
                    "label480" => {
                        // non-square sizes where the primaries guess depends on the orientation: label must describe the encoding (C09 budget: 3 codes at 8 bit)
                        let mut worst = 0i32; let mut at = String::new();
                        for (w, h) in [(1usize, 480usize), (480, 1), (4, 480), (4, 576), (2, 488)] {
                            let c = YuvConfig { color_primaries: CP::Unspecified, ..cfg(8, false, MC::ST170M, 0, 0) };
                            let px = vec![[0.1f32, 0.6, 0.3]; w * h];
                            let o1 = Yuv::<u8>::try_from((LinearRgb::new(px.clone(), w, h).unwrap(), c)).unwrap();
                            let o2 = Yuv::<u8>::try_from((LinearRgb::new(px, w, h).unwrap(), o1.config())).unwrap();
                            let d = (0..3).map(|k| (i32::from(o1.data()[k].p(0, 0)) - i32::from(o2.data()[k].p(0, 0))).abs()).max().unwrap();
                            if d > worst { worst = d; at = format!("{}x{} labelled {:?}", w, h, o1.config().color_primaries); }
                        }
                        out(worst > 3, format!("max difference between the output and its re-encoding under the stored config: {} codes ({})", worst, at));
                    }
                    "rgbres" => {
                        let (cp, tc) = (CP_ALL[ix(&a[1])], TC_ALL[ix(&a[2])]);
                        let r = Rgb::new(vec![[0.25, 0.5, 0.75]], 1, 1, tc, cp).unwrap();
                        let wt = if tc == TC::Unspecified { TC::SRGB } else { tc }; let wp = if cp == CP::Unspecified { CP::BT709 } else { cp };
                        let mut bad = r.transfer() != wt || r.primaries() != wp;
                        if let Ok(q) = Rgb::try_from((LinearRgb::new(vec![[0.25, 0.5, 0.75]], 1, 1).unwrap(), tc, cp)) { bad |= q.transfer() != wt || q.primaries() != wp; }
                        out(bad, format!("{:?}/{:?} -> {:?}/{:?}", tc, cp, r.transfer(), r.primaries()));
                    }
                    _ => {
                        let (mc, cp, tc) = (MC_ALL[ix(&a[1])], CP_ALL[ix(&a[2])], TC_ALL[ix(&a[3])]);
                        let px = vec![[fb(&a[4]), fb(&a[5]), fb(&a[6])]];
                        let c = YuvConfig { transfer_characteristics: tc, color_primaries: cp, ..cfg(8, false, mc, 0, 0) };
                        let conv = |cc: YuvConfig| if a[0] == "labelx" { Yuv::<u8>::try_from((Xyb::new(px.clone(), 1, 1).unwrap(), cc)) } else { Yuv::<u8>::try_from((LinearRgb::new(px.clone(), 1, 1).unwrap(), cc)) };
                        match conv(c) {
                            Err(e) => out(false, format!("conversion fails with {:?}: clause vacuous", e)),
                            Ok(o1) => {
                                let l = o1.config();
                                match conv(l) {
                                    Err(e) => out(true, format!("stored config {:?} is not convertible: {:?}", l, e)),
                                    Ok(o2) => {
                                        // the property's criterion: within the C09 budget max(1, 0.015*(2^n-1)) = 3 codes at 8 bit
                                        let d = (0..3).map(|k| (i32::from(o1.data()[k].p(0, 0)) - i32::from(o2.data()[k].p(0, 0))).abs()).max().unwrap();
                                        out(d > 3, format!("stored label {:?}/{:?}/{:?}: codes {:?} vs re-encoded under the label {:?} (max diff {})", l.matrix_coefficients, l.color_primaries, l.transfer_characteristics,
                                            [o1.data()[0].p(0, 0), o1.data()[1].p(0, 0), o1.data()[2].p(0, 0)], [o2.data()[0].p(0, 0), o2.data()[1].p(0, 0), o2.data()[2].p(0, 0)], d));
                                    }
                                }
                            }
                        }
                    }
                }
            }

            // hsl r g b: the C17 forward clauses against an f64 hexcone oracle
            "hsl" => {
                let px = [fb(&a[0]), fb(&a[1]), fb(&a[2])];
                let o = Hsl::from(LinearRgb::new(vec![px], 1, 1).unwrap()).data()[0];
                let (r, g, b) = (px[0] as f64, px[1] as f64, px[2] as f64);
                let mx = r.max(g).max(b); let mn = r.min(g).min(b); let c = mx - mn; let l = (mx + mn) / 2.0;
                let mut bad = Vec::new();
                if !(o[0] >= 0.0 && o[0] < 360.0) { bad.push(format!("H={} outside [0,360)", o[0])); }
                if !(o[1] >= 0.0 && o[1] <= 1.0) { bad.push(format!("S={} outside [0,1]", o[1])); }
                if !(o[2] >= 0.0 && o[2] <= 1.0) { bad.push(format!("L={} outside [0,1]", o[2])); }
                if (o[2] as f64 - l).abs() > 1e-6 { bad.push(format!("L={} vs {}", o[2], l)); }
                if l >= 0.01 && l <= 0.99 { let s = c / (1.0 - (2.0 * l - 1.0).abs()); if (o[1] as f64 - s).abs() > 1e-4 { bad.push(format!("S={} vs {}", o[1], s)); } }
                if c >= 0.01 {
                    let mut h = if mx == r { 60.0 * ((g - b) / c) } else if mx == g { 60.0 * ((b - r) / c + 2.0) } else { 60.0 * ((r - g) / c + 4.0) };
                    if h < 0.0 { h += 360.0; }
                    let d = (o[0] as f64 - h).abs(); let d = d.min(360.0 - d);
                    if d > 0.01 { bad.push(format!("H={} vs {}", o[0], h)); }
                }
                if c == 0.0 && !(o[0] == 0.0 && o[1] == 0.0 && o[2] == px[0]) { bad.push(format!("grey -> {:?}", o)); }
                out(!bad.is_empty(), format!("{:?} -> {:?}: {}", px, o, if bad.is_empty() { "hexcone ok".to_string() } else { bad.join("; ") }));
            }

            // yuv dec|rt T bd full mc y u v   |   yuv enc T bd full mc r g b   : C01 / C08 / C02 as written, f64 oracle from the standard's Kr/Kb
            "yuv" => {
                fn krkb(mc: MC) -> Option<(f64, f64)> {
                    Some(match mc { MC::BT709 => (0.2126, 0.0722), MC::BT470M => (0.30, 0.11), MC::BT470BG | MC::ST170M => (0.299, 0.114),
                        MC::ST240M => (0.212, 0.087), MC::BT2020NonConstantLuminance => (0.2627, 0.0593), _ => return None })
                }
                fn inv_oracle(mc: MC, p: [f64; 3]) -> [f64; 3] {
                    if let Some((kr, kb)) = krkb(mc) {
                        let kg = 1.0 - kr - kb;
                        let r = p[0] + 2.0 * (1.0 - kr) * p[2]; let b = p[0] + 2.0 * (1.0 - kb) * p[1];
                        [r, (p[0] - kr * r - kb * b) / kg, b]
                    } else { [p[0] - p[1] + p[2], p[0] + p[1], p[0] - p[1] - p[2]] }
                }
                fn fwd_oracle(mc: MC, c: [f64; 3]) -> [f64; 3] {
                    if let Some((kr, kb)) = krkb(mc) {
                        let y = kr * c[0] + (1.0 - kr - kb) * c[1] + kb * c[2];
                        [y, (c[2] - y) / (2.0 * (1.0 - kb)), (c[0] - y) / (2.0 * (1.0 - kr))]
                    } else { [0.25 * c[0] + 0.5 * c[1] + 0.25 * c[2], -0.25 * c[0] + 0.5 * c[1] - 0.25 * c[2], 0.5 * c[0] - 0.5 * c[2]] }
                }
                fn so(bd: u8, full: bool, chroma: bool) -> (f64, f64) {
                    let k = f64::from(1u32 << (bd - 8)); let m = f64::from((1u32 << bd) - 1);
                    if full { (m, if chroma { f64::from(1u32 << (bd - 1)) } else { 0.0 }) } else if chroma { (224.0 * k, 128.0 * k) } else { (219.0 * k, 16.0 * k) }
                }
                let bd = a[2].parse::<u8>().unwrap(); let full = a[3] == "1"; let mc = MC_ALL[a[4].parse::<usize>().unwrap()];
                let c = cfg(bd, full, mc, 0, 0);
                let maxv = f64::from((1u32 << bd) - 1);
                let is8 = a[1] == "u8";
                let decode = |y: u16, u: u16, v: u16| -> [f32; 3] {
                    if is8 { Rgb::try_from(&Yuv::new(Frame { planes: [Plane::from_slice(&[y as u8], 1), Plane::from_slice(&[u as u8], 1), Plane::from_slice(&[v as u8], 1)] }, c).unwrap()).unwrap().data()[0] }
                    else { Rgb::try_from(&Yuv::new(Frame { planes: [Plane::from_slice(&[y], 1), Plane::from_slice(&[u], 1), Plane::from_slice(&[v], 1)] }, c).unwrap()).unwrap().data()[0] }
                };
                let encode = |px: [f32; 3]| -> [u16; 3] {
                    let rgb = Rgb::new(vec![px], 1, 1, TC::BT1886, CP::BT709).unwrap();
                    if is8 { let y = Yuv::<u8>::try_from((&rgb, c)).unwrap(); [u16::from(y.data()[0].p(0, 0)), u16::from(y.data()[1].p(0, 0)), u16::from(y.data()[2].p(0, 0))] }
                    else { let y = Yuv::<u16>::try_from((&rgb, c)).unwrap(); [y.data()[0].p(0, 0), y.data()[1].p(0, 0), y.data()[2].p(0, 0)] }
                };
                match a[0].as_str() {
                    "dec" | "rt" => {
                        let code = [a[5].parse::<u16>().unwrap(), a[6].parse::<u16>().unwrap(), a[7].parse::<u16>().unwrap()];
                        let got = decode(code[0], code[1], code[2]);
                        if a[0] == "dec" {
                            let mut n = [0f64; 3];
                            for j in 0..3 { let (s, o) = so(bd, full, j > 0); let x = (f64::from(code[j]) - o) / s; n[j] = if j == 0 { x.clamp(0.0, 1.0) } else { x.clamp(-0.5, 0.5) }; }
                            let want = inv_oracle(mc, n);
                            let err = (0..3).map(|i| (f64::from(got[i]) - want[i]).abs()).fold(0.0, f64::max);
                            out(err > 3e-6, format!("decode {:?} {}bit full={} {:?}: got {:?} want {:?} err {:.3e}", mc, bd, full, code, got, want, err));
                        } else {
                            let back = encode(got);
                            let k = 1u16 << (bd - 8);
                            let mut bad = false;
                            for j in 0..3 {
                                let legal = if full { code[j] } else { code[j].clamp(16 * k, if j == 0 { 235 * k } else { 240 * k }) };
                                let ok = back[j] == legal || (full && j > 0 && code[j] == 0 && back[j] == 1);
                                bad |= !ok;
                            }
                            out(bad, format!("round trip {:?} {}bit full={} {:?} -> {:?} -> {:?}", mc, bd, full, code, got, back));
                        }
                    }
                    _ => {
                        let px = [fb(&a[5]), fb(&a[6]), fb(&a[7])];
                        let inbox = px.iter().all(|v| v.is_finite() && *v >= -0.5 && *v <= 1.5);
                        let got = encode(px);
                        let id = fwd_oracle(mc, [f64::from(px[0]), f64::from(px[1]), f64::from(px[2])]);
                        let mut worst = 0f64;
                        for j in 0..3 { let (s, o) = so(bd, full, j > 0); let w = (s * id[j] + o).clamp(0.0, maxv); worst = worst.max((f64::from(got[j]) - w).abs()); }
                        out(inbox && worst > 0.5 + 1e-6 * (maxv + 1.0), format!("encode {:?} {}bit full={} {:?}: codes {:?}, worst distance to the H.273 quantisation {:.6} (pixel in [-0.5,1.5]^3: {})", mc, bd, full, px, got, worst, inbox));
                    }
                }
            }

            // libm: does this build's powf/expf/cbrtf agree bit for bit with libm? (C20 wiring replay; run in a --no-default-features build)
            "libm" => {
                let pts = [0.3f32, 0.7, 1.3, 1.9, 0.018, 0.9];
                let mut diff = 0;
                for x in pts { for y in [0.45f32, 2.4, 1.0 / 2.2] { if yuvxyb_math::powf(x, y).to_bits() != x.powf(y).to_bits() { diff += 1; } } }
                for x in pts { if yuvxyb_math::expf(x).to_bits() != x.exp().to_bits() { diff += 1; } if yuvxyb_math::cbrtf(x).to_bits() != x.cbrt().to_bits() { diff += 1; } }
                out(diff > 0, format!("{} of 30 probe results differ from libm: the fast kernels are {} in this build", diff, if diff > 0 { "compiled in" } else { "not used" }));
            }

            // neutral yuv T bd full mc ycode | prim in|out cp gbits | curve idx | xyb gbits   (C16)
            "neutral" => {
                match a[0].as_str() {
                    "yuv" | "yuvx" => {
                        let bd = a[2].parse::<u8>().unwrap(); let full = a[3] == "1"; let mc = MC_ALL[a[4].parse::<usize>().unwrap()];
                        let y = a[5].parse::<u16>().unwrap(); let mid = 1u16 << (bd - 1);
                        let mut c = cfg(bd, full, mc, 0, 0);
                        if a[0] == "yuvx" { c.color_primaries = CP_ALL[ix(&a[6])]; }
                        let o = if a[1] == "u8" { Rgb::try_from(&Yuv::new(Frame { planes: [Plane::from_slice(&[y as u8], 1), Plane::from_slice(&[mid as u8], 1), Plane::from_slice(&[mid as u8], 1)] }, c).unwrap()).unwrap().data()[0] }
                            else { Rgb::try_from(&Yuv::new(Frame { planes: [Plane::from_slice(&[y], 1), Plane::from_slice(&[mid], 1), Plane::from_slice(&[mid], 1)] }, c).unwrap()).unwrap().data()[0] };
                        let k = 1u16 << (bd - 8);
                        let (black, white) = if full { (0, ((1u32 << bd) - 1) as u16) } else { (16 * k, 235 * k) };
                        let spread = o[0].max(o[1]).max(o[2]) - o[0].min(o[1]).min(o[2]);
                        let mut bad = spread > 5.0e-7;
                        if y == black { bad |= o != [0.0, 0.0, 0.0]; }
                        if y == white { bad |= o.iter().any(|v| (v - 1.0).abs() > 1.0e-6); }
                        out(bad, format!("{:?} {}bit full={} Y={} neutral chroma -> {:?} spread {:e}", mc, bd, full, y, o, spread));
                    }
                    "prim" => {
                        let p = CP_ALL[a[2].parse::<usize>().unwrap()]; let g = fb(&a[3]);
                        let o = if a[1] == "in" { LinearRgb::try_from(Rgb::new(vec![[g, g, g]], 1, 1, TC::Linear, p).unwrap()).unwrap().data()[0] }
                            else { Rgb::try_from((LinearRgb::new(vec![[g, g, g]], 1, 1).unwrap(), TC::Linear, p)).unwrap().data()[0] };
                        out(o.iter().any(|v| (v - g).abs() > 1.0e-5), format!("{:?} {} grey {} -> {:?}", p, a[1], g, o));
                    }
                    "curve" => {
                        let curves = [TC::BT1886, TC::ST170M, TC::ST240M, TC::BT2020Ten, TC::BT2020Twelve, TC::BT470M, TC::BT470BG, TC::SRGB, TC::XVYCC, TC::PerceptualQuantizer, TC::HybridLogGamma, TC::Linear];
                        let t = curves[a[1].parse::<usize>().unwrap()];
                        let lin = |x: f32| LinearRgb::try_from(Rgb::new(vec![[x, x, x]], 1, 1, t, CP::BT709).unwrap()).unwrap().data()[0][1];
                        let gam = |x: f32| Rgb::try_from((LinearRgb::new(vec![[x, x, x]], 1, 1).unwrap(), t, CP::BT709)).unwrap().data()[0][1];
                        let tol = if t == TC::PerceptualQuantizer { 5.7e-4 } else { 2.5e-4 };
                        let v = [lin(0.0), gam(0.0), lin(1.0), gam(1.0)];
                        out(v[0].abs() > 1e-6 || v[1].abs() > 1e-6 || (v[2] - 1.0).abs() >= 2.5e-4 || (v[3] - 1.0).abs() >= tol, format!("{:?}: lin(0),gam(0),lin(1),gam(1) = {:?}", t, v));
                    }
                    _ => {
                        let g = fb(&a[1]);
                        let o = Xyb::from(LinearRgb::new(vec![[g, g, g]], 1, 1).unwrap()).data()[0];
                        out(o[0].abs() > 1e-6 || (o[1] - o[2]).abs() > 1e-6 || (g == 0.0 && o.iter().any(|v| v.abs() > 1e-6)), format!("grey {} -> XYB {:?}", g, o));
                    }
                }
            }

            // curve lin|gam|rt <tc idx> <xbits>: C03 / C10 on one input, f64 oracle from the defining formulas
            "curve" => {
                fn g709(e: f64) -> f64 { if e < 0.018 { 4.5 * e } else { 1.099 * e.powf(0.45) - 0.099 } }
                fn g709i(v: f64) -> f64 { if v < 4.5 * 0.018 { v / 4.5 } else { ((v + 0.099) / 1.099).powf(1.0 / 0.45) } }
                fn pqc() -> (f64, f64, f64, f64, f64) { (2610.0 / 16384.0, 2523.0 / 32.0, 3424.0 / 4096.0, 2413.0 / 128.0, 2392.0 / 128.0) }
                fn pq_inv_eotf(y: f64) -> f64 { let (m1, m2, c1, c2, c3) = pqc(); let p = y.powf(m1); ((c1 + c2 * p) / (1.0 + c3 * p)).powf(m2) }
                fn pq_eotf(v: f64) -> f64 { let (m1, m2, c1, c2, c3) = pqc(); let p = v.powf(1.0 / m2); ((p - c1).max(0.0) / (c2 - c3 * p)).powf(1.0 / m1) }
                fn def(t: TC, to_linear: bool, x: f64) -> Option<f64> {
                    Some(match t {
                        TC::BT1886 | TC::ST170M | TC::ST240M | TC::BT2020Ten | TC::BT2020Twelve | TC::XVYCC => if to_linear { x.powf(2.4) } else { x.powf(1.0 / 2.4) },
                        TC::BT470M => if to_linear { x.powf(2.2) } else { x.powf(1.0 / 2.2) },
                        TC::BT470BG => if to_linear { x.powf(2.8) } else { x.powf(1.0 / 2.8) },
                        TC::SRGB => if to_linear { if x <= 0.04045 { x / 12.92 } else { ((x + 0.055) / 1.055).powf(2.4) } } else if x <= 0.0031308 { 12.92 * x } else { 1.055 * x.powf(1.0 / 2.4) - 0.055 },
                        TC::Logarithmic100 => if to_linear { 10f64.powf(2.0 * (x - 1.0)) } else if x < 0.01 { 0.0 } else { 1.0 + x.log10() / 2.0 },
                        TC::Logarithmic316 => if to_linear { 10f64.powf(2.5 * (x - 1.0)) } else if x < 0.0031622776601683794 { 0.0 } else { 1.0 + x.log10() / 2.5 },
                        TC::PerceptualQuantizer => if to_linear { g709i((100.0 * pq_eotf(x)).powf(1.0 / 2.4)) / 59.5208 } else { pq_inv_eotf(g709(59.5208 * x).powf(2.4) / 100.0) },
                        TC::HybridLogGamma => if to_linear { if x <= 0.5 { x * x / 3.0 } else { (((x - 0.55991073) / 0.17883277).exp() + 0.28466892) / 12.0 } } else if x <= 1.0 / 12.0 { (3.0 * x).sqrt() } else { 0.17883277 * (12.0 * x - 0.28466892).ln() + 0.55991073 },
                        TC::Linear => x,
                        _ => return None,
                    })
                }
                let t = TC_ALL[ix(&a[1])]; let x = fb(&a[2]);
                let lin = |t: TC, x: f32| LinearRgb::try_from(Rgb::new(vec![[x, 0.5, 0.25]], 1, 1, t, CP::BT709).unwrap()).unwrap().data()[0][0];
                let gam = |t: TC, x: f32| Rgb::try_from((LinearRgb::new(vec![[x, 0.5, 0.25]], 1, 1).unwrap(), t, CP::BT709)).unwrap().data()[0][0];
                let inr = x >= 0.0 && x <= 1.0;
                let mut bad = Vec::new();
                let alias = matches!(t, TC::ST170M | TC::ST240M | TC::BT2020Ten | TC::BT2020Twelve);
                match a[0].as_str() {
                    "lin" | "gam" => {
                        let tl = a[0] == "lin";
                        let y = if tl { lin(t, x) } else { gam(t, x) };
                        if alias { let r = if tl { lin(TC::BT1886, x) } else { gam(TC::BT1886, x) }; if r.to_bits() != y.to_bits() { bad.push(format!("alias differs from BT.1886: {} vs {}", y, r)); } }
                        if t == TC::Linear && y.to_bits() != x.to_bits() { bad.push("Linear is not the identity".to_string()); }
                        if inr { if let Some(w) = def(t, tl, f64::from(x)) { let tol = if t == TC::PerceptualQuantizer && !tl { 5.7e-4 } else { 2.5e-4 };
                            if (f64::from(y) - w).abs() >= tol { bad.push(format!("{} vs defining formula {} (|err| {:.3e} >= {:.1e})", y, w, (f64::from(y) - w).abs(), tol)); } } }
                        out(!bad.is_empty(), format!("{:?} {} x={}: {}", t, a[0], x, if bad.is_empty() { format!("ok ({})", y) } else { bad.join("; ") }));
                    }
                    _ => {
                        let y = gam(t, lin(t, x));
                        let tol = if t == TC::PerceptualQuantizer { 5.7e-4 } else { 2.5e-4 };
                        out(inr && !((y - x).abs() < tol), format!("{:?} round trip x={} -> {} (tol {:.1e})", t, x, y, tol));
                    }
                }
            }

            // prim <in idx> <out idx> r g b : C06 on one pixel against the CIE derivation in f64
            "prim" => {
                fn xy(p: CP) -> Option<[[f64; 2]; 3]> { Some(match p {
                    CP::BT709 => [[0.640, 0.330], [0.300, 0.600], [0.150, 0.060]], CP::BT470M => [[0.67, 0.33], [0.21, 0.71], [0.14, 0.08]],
                    CP::BT470BG => [[0.64, 0.33], [0.29, 0.60], [0.15, 0.06]], CP::ST170M | CP::ST240M => [[0.630, 0.340], [0.310, 0.595], [0.155, 0.070]],
                    CP::Film => [[0.681, 0.319], [0.243, 0.692], [0.145, 0.049]], CP::BT2020 => [[0.708, 0.292], [0.170, 0.797], [0.131, 0.046]],
                    CP::P3DCI | CP::P3Display => [[0.680, 0.320], [0.265, 0.690], [0.150, 0.060]], CP::Tech3213 => [[0.630, 0.340], [0.295, 0.605], [0.155, 0.077]], _ => return None }) }
                fn white(p: CP) -> [f64; 2] { match p { CP::BT470M | CP::Film => [0.310, 0.316], CP::ST428 => [1.0 / 3.0, 1.0 / 3.0], CP::P3DCI => [0.314, 0.351], _ => [0.3127, 0.3290] } }
                fn xyz(c: [f64; 2]) -> [f64; 3] { [c[0] / c[1], 1.0, (1.0 - c[0] - c[1]) / c[1]] }
                type M = [[f64; 3]; 3];
                fn mul(a: &M, b: &M) -> M { let mut r = [[0.0; 3]; 3]; for i in 0..3 { for j in 0..3 { for k in 0..3 { r[i][j] += a[i][k] * b[k][j]; } } } r }
                fn mv(a: &M, v: [f64; 3]) -> [f64; 3] { [a[0][0] * v[0] + a[0][1] * v[1] + a[0][2] * v[2], a[1][0] * v[0] + a[1][1] * v[1] + a[1][2] * v[2], a[2][0] * v[0] + a[2][1] * v[1] + a[2][2] * v[2]] }
                fn inv(m: &M) -> M { let [[a, b, c], [d, e, f], [g, h, i]] = *m; let det = a * (e * i - f * h) - b * (d * i - f * g) + c * (d * h - e * g);
                    [[(e * i - f * h) / det, (c * h - b * i) / det, (b * f - c * e) / det], [(f * g - d * i) / det, (a * i - c * g) / det, (c * d - a * f) / det], [(d * h - e * g) / det, (b * g - a * h) / det, (a * e - b * d) / det]] }
                fn r2x(p: CP) -> M { if p == CP::ST428 { return [[1.0, 0.0, 0.0], [0.0, 1.0, 0.0], [0.0, 0.0, 1.0]]; }
                    let c = xy(p).unwrap(); let cols = [xyz(c[0]), xyz(c[1]), xyz(c[2])];
                    let m: M = [[cols[0][0], cols[1][0], cols[2][0]], [cols[0][1], cols[1][1], cols[2][1]], [cols[0][2], cols[1][2], cols[2][2]]];
                    let s = mv(&inv(&m), xyz(white(p)));
                    [[m[0][0] * s[0], m[0][1] * s[1], m[0][2] * s[2]], [m[1][0] * s[0], m[1][1] * s[1], m[1][2] * s[2]], [m[2][0] * s[0], m[2][1] * s[1], m[2][2] * s[2]]] }
                let (pi, po) = (CP_ALL[ix(&a[0])], CP_ALL[ix(&a[1])]);
                let px = [fb(&a[2]), fb(&a[3]), fb(&a[4])];
                let got = if po == CP::BT709 { LinearRgb::try_from(Rgb::new(vec![px], 1, 1, TC::Linear, pi).unwrap()).unwrap().data()[0] }
                    else { Rgb::try_from((LinearRgb::new(vec![px], 1, 1).unwrap(), TC::Linear, po)).unwrap().data()[0] };
                let br: M = [[0.8951, 0.2664, -0.1614], [-0.7502, 1.7135, 0.0367], [0.0389, -0.0685, 1.0296]];
                let (wi, wo) = (xyz(white(pi)), xyz(white(po)));
                let ad: M = if wi == wo { [[1.0, 0.0, 0.0], [0.0, 1.0, 0.0], [0.0, 0.0, 1.0]] } else { let (ri, ro) = (mv(&br, wi), mv(&br, wo));
                    mul(&mul(&inv(&br), &[[ro[0] / ri[0], 0.0, 0.0], [0.0, ro[1] / ri[1], 0.0], [0.0, 0.0, ro[2] / ri[2]]]), &br) };
                let t = mul(&mul(&inv(&r2x(po)), &ad), &r2x(pi));
                let v = [f64::from(px[0]), f64::from(px[1]), f64::from(px[2])];
                let want = mv(&t, v);
                let inbox = px.iter().all(|c| c.is_finite() && *c >= -0.5 && *c <= 2.0);
                let n = v.iter().fold(1.0f64, |m, c| m.max(c.abs()));
                let err = (0..3).map(|k| (f64::from(got[k]) - want[k]).abs()).fold(0.0, f64::max);
                out(inbox && err > 1e-5 * n, format!("{:?}->{:?} {:?}: got {:?} CIE {:?} err {:.3e} (allowed {:.3e})", pi, po, px, got, want, err, 1e-5 * n));
            }

            // xyb fwd r g b (C04 vs the libjxl definition in f64) | xyb rt r g b (C05 round trip)
            "xyb" => {
                let px = [fb(&a[1]), fb(&a[2]), fb(&a[3])];
                let am = [[0.30f64, 0.622, 0.078], [0.23, 0.692, 0.078], [0.24342268924547819, 0.20476744424496821, 0.55180986650955360]];
                let b = 0.0037930732552754493f64;
                if a[0] == "fwd" {
                    let got = Xyb::from(LinearRgb::new(vec![px], 1, 1).unwrap()).data()[0];
                    let mut lms = [0f64; 3]; let mut mixes = [0f64; 3];
                    for i in 0..3 { let m = am[i][0] * f64::from(px[0]) + am[i][1] * f64::from(px[1]) + am[i][2] * f64::from(px[2]) + b; mixes[i] = m; lms[i] = m.max(0.0).cbrt() - b.cbrt(); }
                    let want = [(lms[0] - lms[1]) / 2.0, (lms[0] + lms[1]) / 2.0, lms[2]];
                    let incube = px.iter().all(|c| *c >= 0.0 && *c <= 4.0);
                    let wellcond = px.iter().all(|c| *c >= -1.0 && *c <= 4.0) && mixes.iter().all(|m| *m <= -1e-3 || *m >= 0.05);
                    let err = (0..3).map(|k| (f64::from(got[k]) - want[k]).abs()).fold(0.0, f64::max);
                    out((incube || wellcond) && err > 2e-6, format!("{:?} -> XYB {:?}, libjxl definition {:?}, err {:.3e} (in domain: {})", px, got, want, err, incube || wellcond));
                } else {
                    let back = LinearRgb::from(Xyb::from(LinearRgb::new(vec![px], 1, 1).unwrap())).data()[0];
                    let inr = px.iter().all(|c| *c >= 0.0 && *c <= 1.0);
                    let err = (0..3).map(|k| (back[k] - px[k]).abs()).fold(0.0, f32::max);
                    out(inr && err > 5e-5, format!("{:?} -> XYB -> {:?}, err {:.3e}", px, back, err));
                }
            }

            // layout enc|dec T w h ssx ssy bd full : C11 metamorphic replay (image vs its 1x1 images; padded vs unpadded planes)
            "layout" => {
                let n = |i: usize| a[i].parse::<usize>().unwrap();
                let (w, h, ssx, ssy, bd, full) = (n(2), n(3), n(4) as u8, n(5) as u8, n(6) as u8, a[7] == "1");
                let c = cfg(bd, full, MC::BT709, ssx, ssy);
                let c444 = cfg(bd, full, MC::BT709, 0, 0);
                let pat = |i: usize, k: usize| -> f32 { (((i * 37 + k * 101 + 13) % 97) as f32) / 96.0 };
                let mut bad = Vec::new();
                fn run<T: Pixel>(a0: &str, w: usize, h: usize, ssx: u8, ssy: u8, bd: u8, c: YuvConfig, c444: YuvConfig, pat: &dyn Fn(usize, usize) -> f32, bad: &mut Vec<String>) {
                    let maxv = (1u32 << bd) - 1;
                    if a0 == "enc" {
                        let data: Vec<[f32; 3]> = (0..w * h).map(|i| [pat(i, 0), pat(i, 1), pat(i, 2)]).collect();
                        let img = Yuv::<T>::try_from((&Rgb::new(data.clone(), w, h, TC::BT1886, CP::BT709).unwrap(), c)).unwrap();
                        if img.width() != w || img.height() != h || img.data()[1].cfg.width != w >> ssx || img.data()[1].cfg.height != h >> ssy { bad.push("dimensions".to_string()); }
                        let one = |i: usize| { let y = Yuv::<T>::try_from((&Rgb::new(vec![data[i]], 1, 1, TC::BT1886, CP::BT709).unwrap(), c444)).unwrap(); [y.data()[0].p(0, 0), y.data()[1].p(0, 0), y.data()[2].p(0, 0)] };
                        for y in 0..h { for x in 0..w { if img.data()[0].p(x, y) != one(y * w + x)[0] { bad.push(format!("luma ({},{})", x, y)); } } }
                        for cy in 0..(h >> ssy) { for cx in 0..(w >> ssx) {
                            let mut ok = false;
                            for dy in 0..(1usize << ssy) { for dx in 0..(1usize << ssx) { let o = one(((cy << ssy) + dy) * w + (cx << ssx) + dx); if o[1] == img.data()[1].p(cx, cy) && o[2] == img.data()[2].p(cx, cy) { ok = true; } } }
                            if !ok { bad.push(format!("chroma ({},{}) matches no pixel of its block", cx, cy)); }
                        } }
                    } else {
                        // same picture in planes with different padding (so different strides/origins): results must agree with the 1x1 decodes
                        for (pu, pv) in [(0usize, 0usize), (0, 3), (3, 0), (5, 2)] {
                            let (cw, ch) = (w >> ssx, h >> ssy);
                            let mut f: Frame<T> = Frame { planes: [Plane::new(w, h, 0, 0, pu, pv), Plane::new(cw, ch, ssx as usize, ssy as usize, pu, pu), Plane::new(cw, ch, ssx as usize, ssy as usize, pv, pv)] };
                            let val = |i: usize, k: usize| T::cast_from(((pat(i, k) * maxv as f32) as u32).min(maxv) as u16);
                            for y in 0..h { for x in 0..w { let o = f.planes[0].cfg.xorigin + (f.planes[0].cfg.yorigin + y) * f.planes[0].cfg.stride + x; f.planes[0].data[o] = val(y * w + x, 0); } }
                            for k in 1..3 { for y in 0..ch { for x in 0..cw { let o = f.planes[k].cfg.xorigin + (f.planes[k].cfg.yorigin + y) * f.planes[k].cfg.stride + x; f.planes[k].data[o] = val(y * cw + x, k); } } }
                            let yuv = Yuv::new(f, c).unwrap();
                            let img = Rgb::try_from(&yuv).unwrap();
                            if img.width() != w || img.height() != h || img.data().len() != w * h { bad.push("dimensions".to_string()); continue; }
                            for y in 0..h { for x in 0..w {
                                let (cx, cy) = (x >> ssx, y >> ssy);
                                let one = Rgb::try_from(&Yuv::new(Frame { planes: [Plane::from_slice(&[val(y * w + x, 0)], 1), Plane::from_slice(&[val(cy * cw + cx, 1)], 1), Plane::from_slice(&[val(cy * cw + cx, 2)], 1)] }, c444).unwrap()).unwrap().data()[0];
                                let g = img.data()[y * w + x];
                                if (0..3).any(|k| g[k].to_bits() != one[k].to_bits()) { bad.push(format!("pixel ({},{}) with chroma padding ({},{})", x, y, pu, pv)); }
                            } }
                        }
                    }
                }
                if a[1] == "u8" { run::<u8>(&a[0], w, h, ssx, ssy, bd, c, c444, &pat, &mut bad); } else { run::<u16>(&a[0], w, h, ssx, ssy, bd, c, c444, &pat, &mut bad); }
                out(!bad.is_empty(), format!("{} {}x{} ss({},{}): {}", a[0], w, h, ssx, ssy, if bad.is_empty() { "pointwise/layout ok".to_string() } else { bad[..bad.len().min(4)].join("; ") }));
            }

            // oddenc w h ssx ssy: RGB->YUV with dimensions not divisible by the subsampling, run in a child process:
            // an out-of-bounds get_unchecked_mut aborts with "unsafe precondition(s) violated" in the dev profile (UB), a plain panic is not UB
            "oddenc" => {
                if a.len() > 4 && a[4] == "child" {
                    let (w, h) = (ix(&a[0]), ix(&a[1]));
                    let rgb = Rgb::new(vec![[0.5, 0.25, 0.75]; w * h], w, h, TC::BT1886, CP::BT709).unwrap();
                    let _ = Yuv::<u8>::try_from((&rgb, cfg(8, false, MC::BT709, ix(&a[2]) as u8, ix(&a[3]) as u8)));
                    return;
                }
                let exe = std::env::current_exe().unwrap();
                let o = std::process::Command::new(exe).args(["replay", "oddenc", &a[0], &a[1], &a[2], &a[3], "child"]).output().unwrap();
                let err = String::from_utf8_lossy(&o.stderr).to_string();
                let ub = err.contains("unsafe precondition");
                let line = err.lines().find(|l| l.contains("unsafe precondition") || l.contains("panicked")).unwrap_or("").to_string();
                out(ub, format!("{}x{} ss({},{}): {}", a[0], a[1], a[2], a[3], if ub { format!("out-of-bounds write: {}", line) } else { format!("no UB observed ({})", line) }));
            }

            // matrix: the C19 clauses on a fixed battery of fixed-point operands (structural errors do not depend on the operands)
            "matrix" => {
                use yuvxyb_math::{ColVector, Matrix, RowVector};
                let sets: [[[i32; 3]; 3]; 3] = [[[3, -7, 1], [-5, 6, 8], [7, -2, -4]], [[8, 1, -3], [2, -6, 5], [-1, 4, 7]], [[1, 0, 0], [0, 0, 1], [0, 1, 0]]];
                let g = |k: i32| f64::from(k) * 0.25;
                let mut bad = Vec::new();
                let tol = |got: f64, want: f64| (got - want).abs() <= 1e-5 * want.abs().max(1.0);
                for a in sets.iter() { for b in sets.iter() {
                    let ma = Matrix::new(RowVector::new(g(a[0][0]) as f32, g(a[0][1]) as f32, g(a[0][2]) as f32), RowVector::new(g(a[1][0]) as f32, g(a[1][1]) as f32, g(a[1][2]) as f32), RowVector::new(g(a[2][0]) as f32, g(a[2][1]) as f32, g(a[2][2]) as f32));
                    let mb = Matrix::new(RowVector::new(g(b[0][0]) as f32, g(b[0][1]) as f32, g(b[0][2]) as f32), RowVector::new(g(b[1][0]) as f32, g(b[1][1]) as f32, g(b[1][2]) as f32), RowVector::new(g(b[2][0]) as f32, g(b[2][1]) as f32, g(b[2][2]) as f32));
                    let (ra, rb) = (RowVector::new(g(a[0][0]) as f32, g(a[0][1]) as f32, g(a[0][2]) as f32), RowVector::new(g(b[1][0]) as f32, g(b[1][1]) as f32, g(b[1][2]) as f32));
                    let (x, y) = (a[0], b[1]);
                    let c = ra.cross(&rb).values();
                    let ce = [g(x[1]) * g(y[2]) - g(x[2]) * g(y[1]), g(x[2]) * g(y[0]) - g(x[0]) * g(y[2]), g(x[0]) * g(y[1]) - g(x[1]) * g(y[0])];
                    for i in 0..3 { if !tol(f64::from(c[i]), ce[i]) { bad.push(format!("cross[{}] {} vs {}", i, c[i], ce[i])); } }
                    let de = g(x[0]) * g(y[0]) + g(x[1]) * g(y[1]) + g(x[2]) * g(y[2]);
                    if !tol(f64::from(ra.dot(&rb)), de) { bad.push(format!("dot {} vs {}", ra.dot(&rb), de)); }
                    let cm = ra.component_mul(&rb).values();
                    for i in 0..3 { if !tol(f64::from(cm[i]), g(x[i]) * g(y[i])) { bad.push(format!("component_mul[{}]", i)); } }
                    let sd = ra.scalar_div(1.75).values();
                    for i in 0..3 { if !tol(f64::from(sd[i]), g(x[i]) / 1.75) { bad.push(format!("scalar_div[{}]", i)); } }
                    let v = [g(b[2][0]) as f32, g(b[2][1]) as f32, g(b[2][2]) as f32];
                    let (w1, w2) = (ma.mul_arr(v), ma.mul_vec(&ColVector::new(v[0], v[1], v[2])).values());
                    let p = ma.mul_mat(mb.clone()).values();
                    let t = ma.clone().transpose().values();
                    for i in 0..3 {
                        let e = g(a[i][0]) * g(b[2][0]) + g(a[i][1]) * g(b[2][1]) + g(a[i][2]) * g(b[2][2]);
                        if !tol(f64::from(w1[i]), e) || !tol(f64::from(w2[i]), e) { bad.push(format!("mul_arr/mul_vec[{}]", i)); }
                        for j in 0..3 {
                            let e = g(a[i][0]) * g(b[0][j]) + g(a[i][1]) * g(b[1][j]) + g(a[i][2]) * g(b[2][j]);
                            if !tol(f64::from(p[i][j]), e) { bad.push(format!("mul_mat[{}][{}]", i, j)); }
                            if f64::from(t[i][j]) != g(a[j][i]) { bad.push(format!("transpose[{}][{}]", i, j)); }
                        }
                    }
                    let det = g(a[0][0]) * (g(a[1][1]) * g(a[2][2]) - g(a[1][2]) * g(a[2][1])) - g(a[0][1]) * (g(a[1][0]) * g(a[2][2]) - g(a[1][2]) * g(a[2][0])) + g(a[0][2]) * (g(a[1][0]) * g(a[2][1]) - g(a[1][1]) * g(a[2][0]));
                    if det.abs() >= 0.5 {
                        let pi = ma.mul_mat(ma.invert()).values();
                        for i in 0..3 { for j in 0..3 { if (f64::from(pi[i][j]) - if i == j { 1.0 } else { 0.0 }).abs() > 1e-4 { bad.push(format!("A*invert(A)[{}][{}] = {}", i, j, pi[i][j])); } } }
                    }
                } }
                bad.sort(); bad.dedup();
                out(!bad.is_empty(), if bad.is_empty() { "matrix algebra agrees with the definitions on the probe operands".to_string() } else { bad[..bad.len().min(5)].join("; ") });
            }
            _ => { eprintln!("unknown replay kind {}", kind); std::process::exit(64); }
        }
    }
