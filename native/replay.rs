    // ---------------------------------------------------------------- replay
    fn replay(kind: &str, a: &[String]) {
        match kind {
            // math <fn> <bits..>: run the helper; UB is only observable under Miri
            "math" => {
                let r = match a[0].as_str() {
                    "powf" => yuvxyb_math::powf(fb(&a[1]), fb(&a[2])),
                    "expf" => yuvxyb_math::expf(fb(&a[1])),
                    "cbrtf" => yuvxyb_math::cbrtf(fb(&a[1])),
                    _ => panic!("fn"),
                };
                out(false, format!("{} returned {:e} (bits {:#x}); UB not observable natively", a[0], r, r.to_bits()));
            }

            // conv <what> ...: run one public conversion on a 1-pixel image (no-panic / finite / valid-code clauses)
            "conv" => {
                let fin = |p: &[f32; 3]| p[0].is_finite() && p[1].is_finite() && p[2].is_finite();
                let unit = |x: f32| x >= 0.0 && x <= 1.0;
                match a[0].as_str() {
                    "tr" => {
                        let t = TC_ALL[hx(&a[2]) as usize];
                        let x = fb(&a[3]);
                        let r = if a[1] == "lin" {
                            LinearRgb::try_from(Rgb::new(vec![[x, 0.25, 1.0]], 1, 1, t, CP::BT709).unwrap()).map(|o| o.data()[0])
                        } else {
                            Rgb::try_from((LinearRgb::new(vec![[x, 0.25, 1.0]], 1, 1).unwrap(), t, CP::BT709)).map(|o| o.data()[0])
                        };
                        match r {
                            Ok(o) => out(unit(x) && !fin(&o), format!("{:?} {} x={:e} -> {:?}", t, a[1], x, o)),
                            Err(e) => out(true, format!("{:?} {} failed: {:?}", t, a[1], e)),
                        }
                    }
                    "tr2px" => {
                        let r = LinearRgb::try_from(Rgb::new(vec![[fb(&a[1]), 0.5, 0.0], [1.0, 0.0, fb(&a[2])]], 2, 1, TC::SRGB, CP::BT709).unwrap()).unwrap();
                        out(!(r.data().len() == 2 && r.width() == 2 && r.height() == 1), format!("{:?}", r.data()));
                    }
                    "pr" => {
                        let p = CP_ALL[hx(&a[2]) as usize];
                        let px = [fb(&a[3]), fb(&a[4]), fb(&a[5])];
                        let r = if a[1] == "in" {
                            LinearRgb::try_from(Rgb::new(vec![px], 1, 1, TC::Linear, p).unwrap()).map(|o| o.data()[0])
                        } else {
                            Rgb::try_from((LinearRgb::new(vec![px], 1, 1).unwrap(), TC::Linear, p)).map(|o| o.data()[0])
                        };
                        match r {
                            Ok(o) => out(unit(px[0]) && unit(px[1]) && unit(px[2]) && !fin(&o), format!("{:?} {:?} -> {:?}", p, px, o)),
                            Err(e) => out(true, format!("{:?} failed: {:?}", p, e)),
                        }
                    }
                    "xyb" | "hsl" => {
                        let px = [fb(&a[2]), fb(&a[3]), fb(&a[4])];
                        let l = || LinearRgb::new(vec![px], 1, 1).unwrap();
                        let o = match (a[0].as_str(), a[1].as_str()) {
                            ("xyb", "fwd") => Xyb::from(l()).data()[0],
                            ("xyb", _) => LinearRgb::from(Xyb::new(vec![px], 1, 1).unwrap()).data()[0],
                            ("hsl", "fwd") => Hsl::from(l()).data()[0],
                            _ => LinearRgb::from(Hsl::new(vec![px], 1, 1).unwrap()).data()[0],
                        };
                        let numeric = !(a[0] == "hsl" && a[1] != "fwd");
                        out(numeric && unit(px[0]) && unit(px[1]) && unit(px[2]) && !fin(&o), format!("{:?} -> {:?}", px, o));
                    }
                    "enc" => {
                        let bd = hx(&a[2]) as u8;
                        let full = a[3] == "1" || a[3] == "true";
                        let mc = MC_ALL[hx(&a[4]) as usize];
                        let px = [fb(&a[5]), fb(&a[6]), fb(&a[7])];
                        let rgb = Rgb::new(vec![px], 1, 1, TC::BT1886, CP::BT709).unwrap();
                        let c = cfg(bd, full, mc, 0, 0);
                        let maxv = (1u32 << bd) - 1;
                        let (ok, d) = if a[1] == "u8" {
                            match Yuv::<u8>::try_from((&rgb, c)) {
                                Ok(y) => ((0..3).all(|p| u32::from(y.data()[p].p(0, 0)) <= maxv) && y.config() == c && y.width() == 1 && y.height() == 1,
                                          format!("{:?}", [y.data()[0].p(0, 0), y.data()[1].p(0, 0), y.data()[2].p(0, 0)])),
                                Err(e) => (false, format!("{:?}", e)),
                            }
                        } else {
                            match Yuv::<u16>::try_from((&rgb, c)) {
                                Ok(y) => ((0..3).all(|p| u32::from(y.data()[p].p(0, 0)) <= maxv) && y.config() == c && y.width() == 1 && y.height() == 1,
                                          format!("{:?}", [y.data()[0].p(0, 0), y.data()[1].p(0, 0), y.data()[2].p(0, 0)])),
                                Err(e) => (false, format!("{:?}", e)),
                            }
                        };
                        out(!ok, format!("{:?} -> {}", px, d));
                    }
                    _ => panic!("conv kind"),
                }
            }
            // geom <T> <bd> <ssx> <ssy> <full> then per plane: bw bh w h xo yo xdec ydec (3 planes); zero samples.
            // Accepted frames are decoded through the public API; an out-of-bounds get_unchecked aborts in the dev profile.
            "geom" => {
                fn build<T: Pixel>(a: &[String]) -> (Frame<T>, YuvConfig) {
                    let n = |i: usize| a[i].parse::<usize>().unwrap();
                    let mut planes = Vec::new();
                    for k in 0..3 {
                        let o = 5 + 8 * k;
                        let (bw, bh) = (n(o), n(o + 1));
                        let buf = vec![T::cast_from(0u8); bw * bh];
                        let mut p = Plane::from_slice(&buf, bw);
                        p.cfg.width = n(o + 2); p.cfg.height = n(o + 3); p.cfg.xorigin = n(o + 4); p.cfg.yorigin = n(o + 5);
                        p.cfg.xdec = n(o + 6); p.cfg.ydec = n(o + 7);
                        p.cfg.xpad = bw - p.cfg.xorigin - p.cfg.width; p.cfg.ypad = bh - p.cfg.yorigin - p.cfg.height;
                        planes.push(p);
                    }
                    let v = planes.pop().unwrap(); let u = planes.pop().unwrap(); let y = planes.pop().unwrap();
                    (Frame { planes: [y, u, v] }, cfg(n(1) as u8, a[4] == "1", MC::BT709, n(2) as u8, n(3) as u8))
                }
                fn run<T: Pixel>(a: &[String]) {
                    let (f, c) = build::<T>(a);
                    let l = f.planes[0].cfg.clone(); let u = f.planes[1].cfg.clone(); let v = f.planes[2].cfg.clone();
                    let (sx, sy) = (c.subsampling_x as usize, c.subsampling_y as usize);
                    let well = u.xdec == sx && v.xdec == sx && u.ydec == sy && v.ydec == sy && l.width % (1 << sx) == 0 && l.height % (1 << sy) == 0
                        && u.width == l.width >> sx && v.width == l.width >> sx && u.height == l.height >> sy && v.height == l.height >> sy;
                    match Yuv::new(f, c) {
                        Ok(y) => {
                            let r = Rgb::try_from(&y).unwrap();   // aborts on out-of-bounds get_unchecked (dev profile)
                            out(!well || r.data().len() != l.width * l.height, format!("accepted (well-formed={}), decoded {} pixels", well, r.data().len()));
                        }
                        Err(e) => out(well, format!("rejected with {:?} (well-formed={})", e, well)),
                    }
                }
                if a[0] == "u8" { run::<u8>(a) } else { run::<u16>(a) }
            }

            // vecnew <Type> <len> <w> <h>
            "vecnew" => {
                let (l, w, h) = (hx(&a[1]) as usize, a[2].parse::<usize>().unwrap(), a[3].parse::<usize>().unwrap());
                let d = vec![[0.5f32, 0.25, 1.0]; l];
                let (ok, dims) = match a[0].as_str() {
                    "Rgb" => match Rgb::new(d, w, h, TC::SRGB, CP::BT709) { Ok(x) => (true, (x.width(), x.height(), x.data().len())), Err(_) => (false, (0, 0, 0)) },
                    "LinearRgb" => match LinearRgb::new(d, w, h) { Ok(x) => (true, (x.width(), x.height(), x.data().len())), Err(_) => (false, (0, 0, 0)) },
                    "Xyb" => match Xyb::new(d, w, h) { Ok(x) => (true, (x.width(), x.height(), x.data().len())), Err(_) => (false, (0, 0, 0)) },
                    _ => match Hsl::new(d, w, h) { Ok(x) => (true, (x.width(), x.height(), x.data().len())), Err(_) => (false, (0, 0, 0)) },
                };
                let want = w.checked_mul(h) == Some(l);
                out(ok != want || (ok && dims != (w, h, l)), format!("{}::new(len {}, {}, {}) ok={} want={}", a[0], l, w, h, ok, want));
            }

            // meta <what> <mc> <cp> <tc> <cp2> <tc2>: the C14 contract on one concrete metadata triple
            "meta" => {
                use crate::ConversionError as E;
                let (mc, cp, tc) = (MC_ALL[hx(&a[1]) as usize], CP_ALL[hx(&a[2]) as usize], TC_ALL[hx(&a[3]) as usize]);
                let (cp2, tc2) = (CP_ALL[hx(&a[4]) as usize], TC_ALL[hx(&a[5]) as usize]);
                let std_mc = MC_STD.contains(&mc); let sup_tc = TC_SUP.contains(&tc); let sup_cp = CP_SUP.contains(&cp);
                let c = |cp: CP, tc: TC| YuvConfig { transfer_characteristics: tc, color_primaries: cp, ..cfg(8, false, mc, 0, 0) };
                let y1 = |cc: YuvConfig| Yuv::new(Frame { planes: [Plane::from_slice(&[100u8], 1), Plane::from_slice(&[120u8], 1), Plane::from_slice(&[140u8], 1)] }, cc).unwrap();
                let names = |e: E, um: bool, up: bool, ut: bool| match e {
                    E::UnsupportedMatrixCoefficients => um && !std_mc,
                    E::UnsupportedColorPrimaries => (up && !sup_cp) || (um && !std_mc && (cp == CP::ST428 || !sup_cp)),
                    E::UnsupportedTransferCharacteristic => ut && !sup_tc,
                    _ => false,
                };
                let px = vec![[0.25f32, 0.5, 0.75]];
                let mut bad = Vec::new();
                match a[0].as_str() {
                    "yuvrgb" => {
                        let d = Rgb::try_from(&y1(c(cp, tc)));
                        let e = Yuv::<u8>::try_from((&Rgb::new(px.clone(), 1, 1, tc, cp).unwrap(), c(cp, tc)));
                        if d.is_ok() != e.is_ok() { bad.push("asymmetric".to_string()); }
                        if std_mc && d.is_err() { bad.push("standard matrix failed".to_string()); }
                        if let (Err(x), Err(y)) = (&d, &e) { if x != y { bad.push(format!("different errors {:?} {:?}", x, y)); } if !names(*x, true, false, false) { bad.push(format!("{:?} names no offender", x)); } }
                    }
                    "ignore" => {
                        if std_mc {
                            let p = Rgb::try_from(&y1(c(cp, tc))).unwrap(); let q = Rgb::try_from(&y1(c(cp2, tc2))).unwrap();
                            if p.data() != q.data() { bad.push("decode depends on transfer/primaries".to_string()); }
                            let e1 = Yuv::<u8>::try_from((&Rgb::new(px.clone(), 1, 1, tc, cp).unwrap(), c(cp, tc))).unwrap();
                            let e2 = Yuv::<u8>::try_from((&Rgb::new(px.clone(), 1, 1, tc2, cp2).unwrap(), c(cp2, tc2))).unwrap();
                            if (0..3).any(|k| e1.data()[k].p(0, 0) != e2.data()[k].p(0, 0)) { bad.push("encode depends on transfer/primaries".to_string()); }
                        }
                    }
                    "gamma" => {
                        let f = LinearRgb::try_from(Rgb::new(px.clone(), 1, 1, tc, cp).unwrap());
                        let r = Rgb::try_from((LinearRgb::new(px.clone(), 1, 1).unwrap(), tc, cp));
                        if f.is_ok() != r.is_ok() { bad.push("asymmetric".to_string()); }
                        if sup_tc && sup_cp && f.is_err() { bad.push("supported pair failed".to_string()); }
                        if let (Err(x), Err(y)) = (&f, &r) { if x != y { bad.push(format!("different errors {:?} {:?}", x, y)); } if !names(*x, false, true, true) { bad.push(format!("{:?} names no offender", x)); } }
                    }
                    _ => {
                        let f = LinearRgb::try_from(&y1(c(cp, tc)));
                        let r = Yuv::<u8>::try_from((LinearRgb::new(px.clone(), 1, 1).unwrap(), c(cp, tc)));
                        let x = Xyb::try_from(&y1(c(cp, tc)));
                        let z = Yuv::<u8>::try_from((Xyb::new(vec![[0.0, 0.5, 0.5]], 1, 1).unwrap(), c(cp, tc)));
                        if f.is_ok() != r.is_ok() || x.is_ok() != z.is_ok() || x.is_ok() != f.is_ok() { bad.push("asymmetric".to_string()); }
                        if std_mc && sup_tc && sup_cp && (f.is_err() || x.is_err()) { bad.push("standard combination failed".to_string()); }
                        for e in [f.as_ref().err(), x.as_ref().err(), r.as_ref().err(), z.as_ref().err()].into_iter().flatten() { if !names(*e, true, true, true) { bad.push(format!("{:?} names no offender", e)); } }
                    }
                }
                out(!bad.is_empty(), format!("{:?}/{:?}/{:?}: {}", mc, cp, tc, if bad.is_empty() { "contract holds".to_string() } else { bad.join("; ") }));
            }

            // unspec yuvres m p t w h | rgbres p t | label|labelx m p t r g b
            "unspec" => {
                match a[0].as_str() {
                    "yuvres" => {
                        let (mc, cp, tc) = (MC_ALL[hx(&a[1]) as usize], CP_ALL[hx(&a[2]) as usize], TC_ALL[hx(&a[3]) as usize]);
                        let (w, h) = (a[4].parse::<usize>().unwrap(), a[5].parse::<usize>().unwrap());
                        let mut f: Frame<u8> = Frame { planes: [Plane::from_slice(&[1u8], 1), Plane::from_slice(&[2u8], 1), Plane::from_slice(&[3u8], 1)] };
                        for p in 0..3 { f.planes[p].cfg.width = w; f.planes[p].cfg.height = h; }
                        let c = YuvConfig { transfer_characteristics: tc, color_primaries: cp, ..cfg(8, false, mc, 0, 0) };
                        let r = Yuv::new(f, c).unwrap().config();
                        let wm = if mc != MC::Unspecified { mc } else if w >= 1280 || h > 576 { MC::BT709 } else if h == 576 { MC::BT470BG } else { MC::ST170M };
                        let wp = if cp != CP::Unspecified { cp } else if wm == MC::BT2020NonConstantLuminance || wm == MC::BT2020ConstantLuminance { CP::BT2020 }
                            else if wm == MC::BT709 || w >= 1280 || h > 576 { CP::BT709 } else if h == 576 { CP::BT470BG } else if h == 480 || h == 488 { CP::ST170M } else { CP::BT709 };
                        let wt = if tc == TC::Unspecified { TC::BT1886 } else { tc };
                        out(r.matrix_coefficients != wm || r.color_primaries != wp || r.transfer_characteristics != wt,
                            format!("{}x{} {:?}/{:?}/{:?} -> {:?}/{:?}/{:?}, documented {:?}/{:?}/{:?}", w, h, mc, cp, tc, r.matrix_coefficients, r.color_primaries, r.transfer_characteristics, wm, wp, wt));
                    }
                    "rgbres" => {
                        let (cp, tc) = (CP_ALL[hx(&a[1]) as usize], TC_ALL[hx(&a[2]) as usize]);
                        let r = Rgb::new(vec![[0.25, 0.5, 0.75]], 1, 1, tc, cp).unwrap();
                        let wt = if tc == TC::Unspecified { TC::SRGB } else { tc }; let wp = if cp == CP::Unspecified { CP::BT709 } else { cp };
                        let mut bad = r.transfer() != wt || r.primaries() != wp;
                        if let Ok(q) = Rgb::try_from((LinearRgb::new(vec![[0.25, 0.5, 0.75]], 1, 1).unwrap(), tc, cp)) { bad |= q.transfer() != wt || q.primaries() != wp; }
                        out(bad, format!("{:?}/{:?} -> {:?}/{:?}", tc, cp, r.transfer(), r.primaries()));
                    }
                    _ => {
                        let (mc, cp, tc) = (MC_ALL[hx(&a[1]) as usize], CP_ALL[hx(&a[2]) as usize], TC_ALL[hx(&a[3]) as usize]);
                        let px = vec![[fb(&a[4]), fb(&a[5]), fb(&a[6])]];
                        let c = YuvConfig { transfer_characteristics: tc, color_primaries: cp, ..cfg(8, false, mc, 0, 0) };
                        let conv = |cc: YuvConfig| if a[0] == "labelx" { Yuv::<u8>::try_from((Xyb::new(px.clone(), 1, 1).unwrap(), cc)) } else { Yuv::<u8>::try_from((LinearRgb::new(px.clone(), 1, 1).unwrap(), cc)) };
                        match conv(c) {
                            Err(e) => out(false, format!("conversion fails with {:?}: clause vacuous", e)),
                            Ok(o1) => {
                                let l = o1.config();
                                match conv(l) {
                                    Err(e) => out(true, format!("stored config {:?} is not convertible: {:?}", l, e)),
                                    Ok(o2) => {
                                        // the property's criterion: within the C09 budget max(1, 0.015*(2^n-1)) = 3 codes at 8 bit
                                        let d = (0..3).map(|k| (i32::from(o1.data()[k].p(0, 0)) - i32::from(o2.data()[k].p(0, 0))).abs()).max().unwrap();
                                        out(d > 3, format!("stored label {:?}/{:?}/{:?}: codes {:?} vs re-encoded under the label {:?} (max diff {})", l.matrix_coefficients, l.color_primaries, l.transfer_characteristics,
                                            [o1.data()[0].p(0, 0), o1.data()[1].p(0, 0), o1.data()[2].p(0, 0)], [o2.data()[0].p(0, 0), o2.data()[1].p(0, 0), o2.data()[2].p(0, 0)], d));
                                    }
                                }
                            }
                        }
                    }
                }
            }
            _ => { eprintln!("unknown replay kind {}", kind); std::process::exit(64); }
        }
    }
