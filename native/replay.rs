    // ---------------------------------------------------------------- replay
    fn replay(kind: &str, a: &[String]) {
        match kind {
            // math <fn> <bits..>: run the helper; UB is only observable under Miri
            "math" => {
                let r = match a[0].as_str() {
                    "powf" => yuvxyb_math::powf(fb(&a[1]), fb(&a[2])),
                    "expf" => yuvxyb_math::expf(fb(&a[1])),
                    "cbrtf" => yuvxyb_math::cbrtf(fb(&a[1])),
                    _ => panic!("fn"),
                };
                out(false, format!("{} returned {:e} (bits {:#x}); UB not observable natively", a[0], r, r.to_bits()));
            }

            // conv <what> ...: run one public conversion on a 1-pixel image (no-panic / finite / valid-code clauses)
            "conv" => {
                let fin = |p: &[f32; 3]| p[0].is_finite() && p[1].is_finite() && p[2].is_finite();
                let unit = |x: f32| x >= 0.0 && x <= 1.0;
                match a[0].as_str() {
                    "tr" => {
                        let t = TC_ALL[hx(&a[2]) as usize];
                        let x = fb(&a[3]);
                        let r = if a[1] == "lin" {
                            LinearRgb::try_from(Rgb::new(vec![[x, 0.25, 1.0]], 1, 1, t, CP::BT709).unwrap()).map(|o| o.data()[0])
                        } else {
                            Rgb::try_from((LinearRgb::new(vec![[x, 0.25, 1.0]], 1, 1).unwrap(), t, CP::BT709)).map(|o| o.data()[0])
                        };
                        match r {
                            Ok(o) => out(unit(x) && !fin(&o), format!("{:?} {} x={:e} -> {:?}", t, a[1], x, o)),
                            Err(e) => out(true, format!("{:?} {} failed: {:?}", t, a[1], e)),
                        }
                    }
                    "tr2px" => {
                        let r = LinearRgb::try_from(Rgb::new(vec![[fb(&a[1]), 0.5, 0.0], [1.0, 0.0, fb(&a[2])]], 2, 1, TC::SRGB, CP::BT709).unwrap()).unwrap();
                        out(!(r.data().len() == 2 && r.width() == 2 && r.height() == 1), format!("{:?}", r.data()));
                    }
                    "pr" => {
                        let p = CP_ALL[hx(&a[2]) as usize];
                        let px = [fb(&a[3]), fb(&a[4]), fb(&a[5])];
                        let r = if a[1] == "in" {
                            LinearRgb::try_from(Rgb::new(vec![px], 1, 1, TC::Linear, p).unwrap()).map(|o| o.data()[0])
                        } else {
                            Rgb::try_from((LinearRgb::new(vec![px], 1, 1).unwrap(), TC::Linear, p)).map(|o| o.data()[0])
                        };
                        match r {
                            Ok(o) => out(unit(px[0]) && unit(px[1]) && unit(px[2]) && !fin(&o), format!("{:?} {:?} -> {:?}", p, px, o)),
                            Err(e) => out(true, format!("{:?} failed: {:?}", p, e)),
                        }
                    }
                    "xyb" | "hsl" => {
                        let px = [fb(&a[2]), fb(&a[3]), fb(&a[4])];
                        let l = || LinearRgb::new(vec![px], 1, 1).unwrap();
                        let o = match (a[0].as_str(), a[1].as_str()) {
                            ("xyb", "fwd") => Xyb::from(l()).data()[0],
                            ("xyb", _) => LinearRgb::from(Xyb::new(vec![px], 1, 1).unwrap()).data()[0],
                            ("hsl", "fwd") => Hsl::from(l()).data()[0],
                            _ => LinearRgb::from(Hsl::new(vec![px], 1, 1).unwrap()).data()[0],
                        };
                        let numeric = !(a[0] == "hsl" && a[1] != "fwd");
                        out(numeric && unit(px[0]) && unit(px[1]) && unit(px[2]) && !fin(&o), format!("{:?} -> {:?}", px, o));
                    }
                    "enc" => {
                        let bd = hx(&a[2]) as u8;
                        let full = a[3] == "1" || a[3] == "true";
                        let mc = MC_ALL[hx(&a[4]) as usize];
                        let px = [fb(&a[5]), fb(&a[6]), fb(&a[7])];
                        let rgb = Rgb::new(vec![px], 1, 1, TC::BT1886, CP::BT709).unwrap();
                        let c = cfg(bd, full, mc, 0, 0);
                        let maxv = (1u32 << bd) - 1;
                        let (ok, d) = if a[1] == "u8" {
                            match Yuv::<u8>::try_from((&rgb, c)) {
                                Ok(y) => ((0..3).all(|p| u32::from(y.data()[p].p(0, 0)) <= maxv) && y.config() == c && y.width() == 1 && y.height() == 1,
                                          format!("{:?}", [y.data()[0].p(0, 0), y.data()[1].p(0, 0), y.data()[2].p(0, 0)])),
                                Err(e) => (false, format!("{:?}", e)),
                            }
                        } else {
                            match Yuv::<u16>::try_from((&rgb, c)) {
                                Ok(y) => ((0..3).all(|p| u32::from(y.data()[p].p(0, 0)) <= maxv) && y.config() == c && y.width() == 1 && y.height() == 1,
                                          format!("{:?}", [y.data()[0].p(0, 0), y.data()[1].p(0, 0), y.data()[2].p(0, 0)])),
                                Err(e) => (false, format!("{:?}", e)),
                            }
                        };
                        out(!ok, format!("{:?} -> {}", px, d));
                    }
                    _ => panic!("conv kind"),
                }
            }
            // geom <T> <bd> <ssx> <ssy> <full> then per plane: bw bh w h xo yo xdec ydec (3 planes); zero samples.
            // Accepted frames are decoded through the public API; an out-of-bounds get_unchecked aborts in the dev profile.
            "geom" => {
                fn build<T: Pixel>(a: &[String]) -> (Frame<T>, YuvConfig) {
                    let n = |i: usize| a[i].parse::<usize>().unwrap();
                    let mut planes = Vec::new();
                    for k in 0..3 {
                        let o = 5 + 8 * k;
                        let (bw, bh) = (n(o), n(o + 1));
                        let buf = vec![T::cast_from(0u8); bw * bh];
                        let mut p = Plane::from_slice(&buf, bw);
                        p.cfg.width = n(o + 2); p.cfg.height = n(o + 3); p.cfg.xorigin = n(o + 4); p.cfg.yorigin = n(o + 5);
                        p.cfg.xdec = n(o + 6); p.cfg.ydec = n(o + 7);
                        p.cfg.xpad = bw - p.cfg.xorigin - p.cfg.width; p.cfg.ypad = bh - p.cfg.yorigin - p.cfg.height;
                        planes.push(p);
                    }
                    let v = planes.pop().unwrap(); let u = planes.pop().unwrap(); let y = planes.pop().unwrap();
                    (Frame { planes: [y, u, v] }, cfg(n(1) as u8, a[4] == "1", MC::BT709, n(2) as u8, n(3) as u8))
                }
                fn run<T: Pixel>(a: &[String]) {
                    let (f, c) = build::<T>(a);
                    let l = f.planes[0].cfg.clone(); let u = f.planes[1].cfg.clone(); let v = f.planes[2].cfg.clone();
                    let (sx, sy) = (c.subsampling_x as usize, c.subsampling_y as usize);
                    let well = u.xdec == sx && v.xdec == sx && u.ydec == sy && v.ydec == sy && l.width % (1 << sx) == 0 && l.height % (1 << sy) == 0
                        && u.width == l.width >> sx && v.width == l.width >> sx && u.height == l.height >> sy && v.height == l.height >> sy;
                    match Yuv::new(f, c) {
                        Ok(y) => {
                            let r = Rgb::try_from(&y).unwrap();   // aborts on out-of-bounds get_unchecked (dev profile)
                            out(!well || r.data().len() != l.width * l.height, format!("accepted (well-formed={}), decoded {} pixels", well, r.data().len()));
                        }
                        Err(e) => out(well, format!("rejected with {:?} (well-formed={})", e, well)),
                    }
                }
                if a[0] == "u8" { run::<u8>(a) } else { run::<u16>(a) }
            }
            _ => { eprintln!("unknown replay kind {}", kind); std::process::exit(64); }
        }
    }
