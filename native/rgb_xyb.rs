#[cfg(verif_native)]
#[allow(dead_code, clippy::all, clippy::pedantic, clippy::nursery)]
pub mod verif_native_xyb {
    use super::*;
    pub fn opsin() -> ([f32; 9], [f32; 3], [f32; 9], [f32; 3]) {
        (OPSIN_ABSORBANCE_MATRIX, OPSIN_ABSORBANCE_BIAS, INVERSE_OPSIN_ABSORBANCE_MATRIX, NEG_OPSIN_ABSORBANCE_BIAS)
    }
    pub fn k_opsin_absorbance(p: [f32; 3]) -> [f32; 3] { opsin_absorbance(&p) }
}
