#[cfg(verif_native)]
#[allow(dead_code, clippy::all, clippy::pedantic, clippy::nursery)]
pub mod verif_native_tr {
    use super::*;
    pub fn consts() -> Vec<(&'static str, f32)> {
        vec![("REC709_ALPHA", REC709_ALPHA), ("REC709_BETA", REC709_BETA), ("SRGB_ALPHA", SRGB_ALPHA),
             ("SRGB_BETA", SRGB_BETA), ("ST2084_M1", ST2084_M1), ("ST2084_M2", ST2084_M2), ("ST2084_C1", ST2084_C1),
             ("ST2084_C2", ST2084_C2), ("ST2084_C3", ST2084_C3), ("ST2084_OOTF_SCALE", ST2084_OOTF_SCALE),
             ("ARIB_B67_A", ARIB_B67_A), ("ARIB_B67_B", ARIB_B67_B), ("ARIB_B67_C", ARIB_B67_C)]
    }
}
