#[cfg(verif_native)]
#[allow(dead_code, clippy::all, clippy::pedantic, clippy::nursery)]
pub mod verif_native_color {
    use super::*;
    pub fn composite(i: ColorPrimaries, o: ColorPrimaries) -> Result<[[f32; 3]; 3], ConversionError> {
        Ok(gamut_xyz_to_rgb_matrix(o)?
            .mul_mat(white_point_adaptation_matrix(i, o))
            .mul_mat(gamut_rgb_to_xyz_matrix(i)?)
            .values())
    }
}
