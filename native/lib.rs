#[cfg(verif_native)]
#[allow(dead_code, unused_imports, clippy::all, clippy::pedantic, clippy::nursery)]
pub mod verif_native {
    //! Native companion of the Kani harnesses (never decides a property):
    //!   consts              -> constants computed by the real code, as f32 bit patterns (JSON)
    //!   replay <kind> args  -> evaluates the property *as written* on one concrete input through the
    //!                          public API against an independent f64 oracle; prints {"violates":bool,"detail":..}
    use crate::verif_common::*;
    use crate::*;
    use std::fmt::Write as _;

    fn hx(s: &str) -> u64 {
        let t = s.trim_start_matches("0x");
        u64::from_str_radix(t, 16).unwrap_or_else(|_| s.parse::<u64>().expect("number"))
    }
    fn fb(s: &str) -> f32 { f32::from_bits(hx(s) as u32) }
    /// decimal index / count argument
    fn ix(s: &str) -> usize { s.parse::<usize>().expect("decimal index") }
    fn out(v: bool, detail: String) {
        let d = detail.replace('\\', "/").replace('"', "'");
        println!("{{\"violates\": {}, \"detail\": \"{}\"}}", v, d);
    }
    fn m3(m: [[f32; 3]; 3]) -> String {
        let mut s = String::from("[");
        for (i, r) in m.iter().enumerate() {
            for (j, v) in r.iter().enumerate() {
                if i + j > 0 { s.push(','); }
                let _ = write!(s, "{}", v.to_bits());
            }
        }
        s.push(']');
        s
    }
    fn cfg(bd: u8, full: bool, mc: MC, ssx: u8, ssy: u8) -> YuvConfig {
        YuvConfig { bit_depth: bd, subsampling_x: ssx, subsampling_y: ssy, full_range: full,
            matrix_coefficients: mc, transfer_characteristics: TC::BT1886, color_primaries: CP::BT709 }
    }

    pub fn consts() -> String {
        use crate::yuv_rgb::verif_native_yr as yr;
        let mut s = String::from("{");
        // scale / offset
        s.push_str("\"scale_offset\": {");
        let mut first = true;
        for to_float in [true, false] {
            for bd in 8u8..=16 {
                for full in [false, true] {
                    for chroma in [false, true] {
                        let (sc, of) = yr::scale_offset(to_float, bd, full, chroma);
                        if !first { s.push(','); }
                        first = false;
                        let _ = write!(s, "\"{}-{}-{}-{}\": [{},{}]", if to_float {"tof"} else {"fromf"}, bd,
                            if full {"full"} else {"lim"}, if chroma {"c"} else {"y"}, sc.to_bits(), of.to_bits());
                    }
                }
            }
        }
        s.push_str("}, \"yuv2rgb\": {");
        first = true;
        for (i, mc) in MC_ALL.iter().enumerate() {
            if let Ok(m) = yr::yuv_to_rgb_matrix(cfg(8, false, *mc, 0, 0)) {
                if !first { s.push(','); }
                first = false;
                let _ = write!(s, "\"{}\": {}", i, m3(m));
            }
        }
        s.push_str("}, \"rgb2yuv\": {");
        first = true;
        for (i, mc) in MC_ALL.iter().enumerate() {
            if let Ok(m) = yr::rgb_to_yuv_matrix(cfg(8, false, *mc, 0, 0)) {
                if !first { s.push(','); }
                first = false;
                let _ = write!(s, "\"{}\": {}", i, m3(m));
            }
        }
        s.push_str("}, \"primaries\": {");
        first = true;
        for (i, a) in CP_ALL.iter().enumerate() {
            for (j, b) in CP_ALL.iter().enumerate() {
                if i == j { continue; }
                if *a != CP::BT709 && *b != CP::BT709 { continue; }
                if let Ok(m) = yr::primaries_matrix(*a, *b) {
                    if !first { s.push(','); }
                    first = false;
                    let _ = write!(s, "\"{}-{}\": {}", i, j, m3(m));
                }
            }
        }
        s.push_str("}, \"opsin\": {");
        let (a, b, inv, nb) = crate::rgb_xyb::verif_native_xyb::opsin();
        let v = |x: &[f32]| x.iter().map(|f| f.to_bits().to_string()).collect::<Vec<_>>().join(",");
        let _ = write!(s, "\"A\": [{}], \"b\": [{}], \"inv\": [{}], \"negb\": [{}]", v(&a), v(&b), v(&inv), v(&nb));
        s.push_str("}, \"transfer\": {");
        first = true;
        for (n, c) in yr::tr::consts() {
            if !first { s.push(','); }
            first = false;
            let _ = write!(s, "\"{}\": {}", n, c.to_bits());
        }
        s.push_str("}}");
        s
    }

    pub fn main() {
        let a: Vec<String> = std::env::args().collect();
        if a.len() < 2 { eprintln!("usage: consts | replay <kind> ..."); std::process::exit(64); }
        match a[1].as_str() {
            "consts" => println!("{}", consts()),
            "replay" => replay(&a[2], &a[3..]),
            _ => { eprintln!("unknown command"); std::process::exit(64); }
        }
    }

    //@REPLAY@
}
