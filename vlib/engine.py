"""Engine K: build an overlay of /repo with appended #[cfg(kani)] harness modules,
compile it once with `cargo kani --only-codegen`, then drive the goto-cc /
goto-instrument / cbmc pipeline (the exact command lines kani-driver 0.68 uses,
captured with strace) ourselves, in parallel, with per-harness time and memory
caps, and parse CBMC's JSON result per check.

Nothing here decides a property by sampling: every verdict is CBMC's (CaDiCaL)
over the symbolic inputs of the harness.
"""
import glob
import json
import os
import re
import resource
import shutil
import signal
import subprocess
import tempfile
import threading
import time
from concurrent.futures import ThreadPoolExecutor

REPO = os.environ.get("VERIF_REPO", "/repo")
VERIF = os.path.dirname(os.path.dirname(os.path.abspath(__file__)))
CACHE = os.path.join(VERIF, ".cache")


def kani_home():
    c = sorted(glob.glob(os.path.expanduser("~/.kani/kani-*")))
    c = [x for x in c if os.path.isdir(x)]
    if not c:
        raise RuntimeError("kani bundle not found under ~/.kani")
    return c[-1]


def log(msg):
    print(msg, flush=True)


class Overlay:
    """Scratch copy of /repo's *current working tree* plus appended modules."""

    def __init__(self, tag):
        base = os.environ.get("VERIF_SCRATCH") or "/var/tmp"
        os.makedirs(base, exist_ok=True)
        self.root = tempfile.mkdtemp(prefix="yuvxyb-verif-%s-" % tag, dir=base)
        self.dir = os.path.join(self.root, "ov")
        self.appended = {}
        os.makedirs(self.dir)
        for ent in os.listdir(REPO):
            if ent in (".git", "target"):
                continue
            s = os.path.join(REPO, ent)
            d = os.path.join(self.dir, ent)
            if os.path.isdir(s):
                shutil.copytree(s, d, symlinks=True,
                                ignore=shutil.ignore_patterns("target"))
            else:
                shutil.copy2(s, d)
        os.makedirs(os.path.join(self.dir, ".cargo"), exist_ok=True)
        with open(os.path.join(self.dir, ".cargo", "config.toml"), "w") as f:
            f.write("[net]\noffline = true\n")

    def seed_target(self, kind):
        """Copy a warmed dependency cache (registry crates only) if present."""
        src = os.path.join(CACHE, "target-" + kind)
        dst = os.path.join(self.dir, "target")
        if os.path.isdir(src) and not os.path.exists(dst):
            subprocess.run(["cp", "-a", src, dst], check=False)

    def append(self, relpath, text):
        p = os.path.join(self.dir, relpath)
        if not os.path.exists(p):
            raise FileNotFoundError(relpath)
        with open(p, "a") as f:
            f.write("\n" + text + "\n")
        self.appended.setdefault(relpath, 0)
        self.appended[relpath] += text.count("\n") + 2

    def prepend(self, relpath, text):
        """insert crate-level inner attributes (e.g. recursion_limit for many #[kani::stub] attributes) at the top of the copy"""
        p = os.path.join(self.dir, relpath)
        body = open(p).read()
        with open(p, "w") as f:
            f.write(text + "\n" + body)

    def write(self, relpath, text):
        p = os.path.join(self.dir, relpath)
        os.makedirs(os.path.dirname(p), exist_ok=True)
        with open(p, "w") as f:
            f.write(text)

    def cleanup(self):
        if os.environ.get("VERIF_KEEP"):
            log("kept scratch: " + self.root)
            return
        shutil.rmtree(self.root, ignore_errors=True)


def _env():
    e = dict(os.environ)
    e["CARGO_NET_OFFLINE"] = "true"
    e.pop("RUSTFLAGS", None)
    e.pop("CARGO_TARGET_DIR", None)
    e.pop("RUSTUP_TOOLCHAIN", None)
    return e


class BuildError(Exception):
    pass


def kani_codegen(ov, no_default_features=False, stubbing=False, logname="codegen.log", only=None):
    """One compile for all harnesses. Returns list of harness metadata dicts.
    `only`: harness names to generate code for (substring filters; the module text may hold more instances than this run uses)."""
    cmd = ["cargo", "kani", "--only-codegen"]
    if only and len(only) <= 400:
        for n in only:
            cmd += ["--harness", n]
    if no_default_features:
        cmd.append("--no-default-features")
    if stubbing:
        cmd += ["-Z", "stubbing"]
    t0 = time.time()
    lp = os.path.join(ov.root, logname)
    with open(lp, "w") as lf:
        r = subprocess.run(cmd, cwd=ov.dir, env=_env(), stdout=lf, stderr=subprocess.STDOUT)
    dt = time.time() - t0
    if r.returncode != 0:
        tail = open(lp, errors="replace").read()[-6000:]
        raise BuildError("cargo kani --only-codegen failed (%.0fs)\n%s" % (dt, tail))
    metas = glob.glob(os.path.join(
        ov.dir, "target/kani/*/debug/build/yuvxyb/*/out/*.kani-metadata.json"))
    if not metas:
        raise BuildError("no kani metadata produced")
    metas.sort(key=os.path.getmtime)
    md = json.load(open(metas[-1]))
    hs = {}
    for h in md["proof_harnesses"]:
        short = h["pretty_name"].split("::")[-1]
        hs[short] = h
    return hs, dt


def _limits(mem_gb):
    def f():
        os.setsid()
        b = int(mem_gb * (1 << 30))
        resource.setrlimit(resource.RLIMIT_AS, (b, b))
    return f


def _run(cmd, timeout, mem_gb, out_path=None, cwd=None):
    """Run under a memory cap and timeout, killing the whole process group."""
    t0 = time.time()
    of = open(out_path, "w") if out_path else subprocess.DEVNULL
    try:
        p = subprocess.Popen(cmd, stdout=of, stderr=subprocess.DEVNULL, cwd=cwd,
                             preexec_fn=_limits(mem_gb), env=_env())
        try:
            rc = p.wait(timeout=timeout)
            status = "done"
        except subprocess.TimeoutExpired:
            try:
                os.killpg(p.pid, signal.SIGKILL)
            except ProcessLookupError:
                pass
            p.wait()
            rc = -9
            status = "timeout"
    finally:
        if out_path:
            of.close()
    return rc, status, time.time() - t0


IGNORED_CLASSES = {"NaN"}           # Kani's default NaN-production checks: not a property
INFO_CLASSES = {"reachability_check", "cover"}
# CBMC's C library model of fma()/fmaf() asserts when it would raise an IEEE exception flag
# (overflow to infinity): that is not a panic or UB in Rust, same status as the NaN class.
IGNORED_FUNCTIONS = {"feraiseexcept"}


def prop_class(pid):
    # "<function>.<class>.<n>"
    m = re.match(r"^(.*)\.([A-Za-z_\-]+)\.(\d+)$", pid)
    if not m:
        return pid, "unknown"
    return m.group(1), m.group(2)


class HarnessResult:
    def __init__(self, name):
        self.name = name
        self.status = "error"      # pass | fail | timeout | oom | error | unwind
        self.detail = ""
        self.checks = 0            # counted (non-ignored) properties
        self.checks_ok = 0
        self.ignored = 0
        self.failed = []           # list of dicts: property, function, class, description, line, file, inputs
        self.covers = {}           # description -> bool satisfied
        self.reach = {}            # function -> reachable?(bool)  (from reachability checks)
        self.wall = 0.0
        self.solver_s = 0.0
        self.vars = None
        self.clauses = None
        self.cmdline = ""
        self.unwindset = []

    def to_json(self):
        d = dict(self.__dict__)
        return d


def _extract_inputs(trace, harness_pretty):
    """Named locals `in_*` of the harness function, first assignment wins."""
    vals = {}
    for st in trace:
        if st.get("stepType") != "assignment":
            continue
        lhs = st.get("lhs", "")
        base = lhs.split("$$")[-1] if "$$" in lhs else lhs
        if not base.startswith("in_"):
            continue
        fn = st.get("sourceLocation", {}).get("function", "")
        if not (fn.endswith(harness_pretty) or "verif_" in fn):
            continue
        v = st.get("value", {})
        if "binary" not in v:
            continue
        if base in vals:
            continue
        vals[base] = {"bin": v["binary"], "data": v.get("data"), "type": v.get("type") or v.get("name"),
                      "width": v.get("width")}
    return vals


def run_harness(ov, hmeta, spec, workdir):
    """spec: dict(name, timeout, mem_gb, unwind, unwindset, extra_cbmc)."""
    K = kani_home()
    name = spec["name"]
    res = HarnessResult(name)
    t0 = time.time()
    sym = hmeta["goto_file"]
    mangled = hmeta["mangled_name"]
    out = os.path.join(workdir, name + ".goto")
    mem = spec.get("mem_gb", 10)
    steps = [
        [K + "/bin/goto-cc", sym, K + "/library/kani/kani_lib.c", "-o", out],
        [K + "/bin/goto-cc", out, "--function", mangled, "-o", out],
        [K + "/bin/goto-instrument", "--add-library", "--no-malloc-may-fail", out, out],
        [K + "/bin/goto-instrument", "--generate-function-body-options", "assert-false-assume-false",
         "--generate-function-body", ".*", "--drop-unused-functions", out, out],
        [K + "/bin/goto-instrument", "--ensure-one-backedge-per-target", out, out],
    ]
    for c in steps:
        rc, st, _ = _run(c, 600, mem)
        if rc != 0:
            res.status = "error"
            res.detail = "pipeline step failed: " + " ".join(os.path.basename(x) for x in c[:2]) + " rc=%s %s" % (rc, st)
            res.wall = time.time() - t0
            return res
    cb = [K + "/bin/cbmc", "--no-malloc-may-fail", "--no-undefined-shift-check", "--no-signed-overflow-check",
          "--nan-check", "--no-self-loops-to-assumptions", "--no-pointer-primitive-check",
          "--object-bits", "16"]
    unwind = spec.get("unwind")
    if unwind is None:
        unwind = hmeta["attributes"].get("unwind_value")
    if unwind is not None:
        cb += ["--unwind", str(unwind)]
    uws = list(spec.get("unwindset") or [])
    if spec.get("unwind_rules"):
        # per-loop bounds: loop ids are discovered on this very goto binary and matched by function name
        lp = os.path.join(workdir, name + ".loops.json")
        _run([K + "/bin/cbmc", "--show-loops", "--json-ui", out], 300, mem, out_path=lp)
        try:
            for item in json.load(open(lp)):
                for l in item.get("loops", []) if isinstance(item, dict) else []:
                    lname = l["name"]
                    fn = l.get("sourceLocation", {}).get("function", "")
                    for rx, bound in spec["unwind_rules"]:
                        if re.search(rx, fn) or re.search(rx, lname):
                            uws.append("%s:%d" % (lname, bound))
                            break
        except Exception as e:
            res.detail = "show-loops failed: %r" % (e,)
        _safe_unlink(lp)
    if uws:
        cb += ["--unwindset", ",".join(uws)]
    res.unwindset = uws
    cb += ["--sat-solver", "cadical", "--slice-formula", out, "--verbosity", "9", "--json-ui", "--trace"]
    cb += spec.get("extra_cbmc", [])
    res.cmdline = " ".join(os.path.basename(x) if x.startswith("/") else x for x in cb)
    jout = os.path.join(workdir, name + ".json")
    rc, st, dt = _run(cb, spec.get("timeout", 600), mem, out_path=jout)
    res.wall = time.time() - t0
    try:
        os.unlink(out)
    except OSError:
        pass
    if st == "timeout":
        res.status = "timeout"
        res.detail = "cbmc exceeded %ss" % spec.get("timeout", 600)
        _safe_unlink(jout)
        return res
    try:
        data = json.load(open(jout))
    except Exception as e:  # truncated output: OOM / crash
        res.status = "oom" if rc in (-6, -9, -11, 134, 137, 6) or rc < 0 else "error"
        res.detail = "cbmc rc=%s, unparsable output (%s)" % (rc, e)
        _safe_unlink(jout)
        return res
    if os.environ.get("VERIF_KEEP_JSON"):
        shutil.copy(jout, os.path.join(os.environ["VERIF_KEEP_JSON"], name + ".json"))
    _safe_unlink(jout)
    results = None
    msgs = []
    for item in data:
        if "result" in item:
            results = item["result"]
        if "messageText" in item:
            mt = item["messageText"]
            msgs.append(mt)
            m = re.search(r"(\d+) variables, (\d+) clauses", mt)
            if m:
                res.vars, res.clauses = int(m.group(1)), int(m.group(2))
            m = re.search(r"Runtime Solver: ([0-9.e+-]+)s", mt)
            if m:
                res.solver_s += float(m.group(1))
            if "out of memory" in mt.lower() or "std::bad_alloc" in mt:
                res.status = "oom"
    if results is None:
        if res.status != "oom":
            res.status = "error"
        res.detail = "no result block (rc=%s): %s" % (rc, " | ".join(msgs[-3:])[:500])
        return res
    pretty = hmeta["pretty_name"]
    unwind_fail = False
    undecided = 0
    und_kinds = set()
    for r in results:
        fn, cls = prop_class(r["property"])
        stt = r["status"]
        desc = re.sub(r"^\[KANI_CHECK_ID_[^\]]*\]\s*", "", r.get("description", ""))
        sl = r.get("sourceLocation", {})
        if cls == "cover":
            # Kani encodes cover!(c) as assert(!c): FAILURE == satisfiable
            res.covers[desc] = res.covers.get(desc, False) or (stt == "FAILURE")
            continue
        if cls == "reachability_check":
            res.reach[fn] = res.reach.get(fn, False) or (stt == "FAILURE")
            continue
        if cls in IGNORED_CLASSES or fn in IGNORED_FUNCTIONS:
            res.ignored += 1
            continue
        res.checks += 1
        if stt not in ("SUCCESS", "FAILURE"):
            undecided += 1
            und_kinds.add(stt)
            continue
        if stt == "SUCCESS":
            res.checks_ok += 1
            continue
        if cls == "unwind":
            unwind_fail = True
        f = {"property": r["property"], "function": fn, "class": cls, "description": desc,
             "file": sl.get("file"), "line": sl.get("line"), "status": stt}
        if "trace" in r:
            f["inputs"] = _extract_inputs(r["trace"], pretty)
        res.failed.append(f)
    real_fail = [f for f in res.failed if f["class"] != "unwind"]
    if undecided and not real_fail:
        res.status = "error"
        res.detail = "%d checks left undecided by CBMC (status %s) %s" % (undecided, sorted(und_kinds), " | ".join(m for m in msgs[-3:])[:300])
    elif undecided:
        # definite FAILUREs stand even if CBMC stopped before deciding the remaining checks
        res.status = "fail"
        res.detail = "%d other checks left undecided by CBMC (%s)" % (undecided, sorted(und_kinds))
    elif not res.failed:
        res.status = "pass"
    elif unwind_fail and all(f["class"] == "unwind" for f in res.failed):
        res.status = "unwind"
        res.detail = "unwinding assertion failed: bound too small"
    else:
        res.status = "fail"
    return res


def _safe_unlink(p):
    try:
        os.unlink(p)
    except OSError:
        pass


def run_all(ov, metas, specs, jobs):
    """Run harness specs in parallel. Heavy ones first."""
    workdir = os.path.join(ov.root, "work")
    os.makedirs(workdir, exist_ok=True)
    order = sorted(specs, key=lambda s: -s.get("timeout", 600))
    results = {}
    lock = threading.Lock()

    def one(s):
        hm = metas.get(s["name"])
        if hm is None:
            r = HarnessResult(s["name"])
            r.status = "error"
            r.detail = "harness not found in kani metadata"
        else:
            r = run_harness(ov, hm, s, workdir)
        with lock:
            results[s["name"]] = r
            log("  [%s] %-44s %7.1fs checks=%d/%d covers=%d/%d %s" % (
                r.status.upper(), s["name"], r.wall, r.checks_ok, r.checks,
                sum(1 for v in r.covers.values() if v), len(r.covers), r.detail[:120]))
            for f in r.failed[:4]:
                log("        - %s [%s] in %s (%s:%s) inputs=%s" % (f["description"][:100], f["class"], f["function"][-60:], f["file"], f["line"],
                    {k: v.get("data") for k, v in (f.get("inputs") or {}).items()}))
        return r

    with ThreadPoolExecutor(max_workers=jobs) as ex:
        list(ex.map(one, order))
    # memory pressure from many concurrent CBMC processes shows up as solver out-of-memory errors:
    # run those harnesses again, two at a time, with a doubled address-space cap, before calling them inconclusive
    retry = [s for s in order if results[s["name"]].status in ("oom", "error") and metas.get(s["name"]) is not None
             and ("memory" in results[s["name"]].detail.lower() or "undecided" in results[s["name"]].detail or results[s["name"]].status == "oom")]
    if retry:
        log("  retrying %d harnesses that ran out of memory, 2 at a time" % len(retry))
        for s in retry:
            s["mem_gb"] = min(40, 2 * s.get("mem_gb", 10))
        with ThreadPoolExecutor(max_workers=2) as ex:
            list(ex.map(one, retry))
    return results
