"""Native side: the same overlay, compiled by plain cargo with --cfg verif_native,
gives (a) the constants the real code computes (for the z3 glue; tied back to the
symbolic execution by K-lemmas) and (b) a replay binary that re-evaluates a
solver counterexample against the real build before anything is reported.
Never decides a property by itself."""
import json
import os
import subprocess
import time

from . import engine
from .engine import log

NATIVE_SRC = os.path.join(engine.VERIF, "native")

# (file in the overlay, template in /verif/native) : appended under #[cfg(verif_native)]
APPEND = [
    ("src/lib.rs", "../harness/common.rs"),
    ("src/yuv_rgb.rs", "yuv_rgb.rs"),
    ("src/yuv_rgb/color.rs", "color.rs"),
    ("src/yuv_rgb/transfer.rs", "transfer.rs"),
    ("src/rgb_xyb.rs", "rgb_xyb.rs"),
    ("src/lib.rs", "lib.rs"),
]


def install(ov):
    for rel, tpl in APPEND:
        p = os.path.join(NATIVE_SRC, tpl)
        if os.path.exists(p):
            txt = open(p).read()
            if tpl == "lib.rs":
                txt = txt.replace("//@REPLAY@", open(os.path.join(NATIVE_SRC, "replay.rs")).read())
            ov.append(rel, txt)
    nd = os.path.join(ov.root, "native")
    os.makedirs(os.path.join(nd, "src"), exist_ok=True)
    with open(os.path.join(nd, "Cargo.toml"), "w") as f:
        f.write('[package]\nname = "verif_native"\nversion = "0.0.0"\nedition = "2021"\n\n'
                '[dependencies]\nyuvxyb = { path = "../ov" }\n\n[workspace]\n\n'
                '[profile.dev]\ndebug-assertions = true\noverflow-checks = true\n'
                '[profile.release]\ndebug-assertions = false\noverflow-checks = false\n')
    with open(os.path.join(nd, "src", "main.rs"), "w") as f:
        f.write("fn main() { yuvxyb::verif_native::main(); }\n")
    lock = os.path.join(ov.dir, "Cargo.lock")
    if os.path.exists(lock):
        # same resolved versions as the repository (extra entries are pruned by cargo offline)
        txt = open(lock).read()
        with open(os.path.join(nd, "Cargo.lock"), "w") as g:
            g.write(txt)
    os.makedirs(os.path.join(nd, ".cargo"), exist_ok=True)
    with open(os.path.join(nd, ".cargo", "config.toml"), "w") as f:
        f.write("[net]\noffline = true\n")


def build(ov, profile="dev", features_off=False):
    nd = os.path.join(ov.root, "native")
    env = engine._env()
    env["RUSTFLAGS"] = "--cfg verif_native"
    seed = os.path.join(engine.CACHE, "target-native")
    tgt = os.path.join(nd, "target")
    if os.path.isdir(seed) and not os.path.exists(tgt):
        subprocess.run(["cp", "-a", seed, tgt], check=False)
    cmd = ["cargo", "build", "--offline"]
    if profile == "release":
        cmd.append("--release")
    t0 = time.time()
    lp = os.path.join(ov.root, "native-%s.log" % profile)
    with open(lp, "w") as lf:
        r = subprocess.run(cmd, cwd=nd, env=env, stdout=lf, stderr=subprocess.STDOUT)
    if r.returncode != 0 and os.path.exists(os.path.join(nd, "Cargo.lock")):
        # lock file from the repo may not resolve for this tiny crate: let cargo re-resolve offline
        os.unlink(os.path.join(nd, "Cargo.lock"))
        with open(lp, "a") as lf:
            r = subprocess.run(cmd, cwd=nd, env=env, stdout=lf, stderr=subprocess.STDOUT)
    if r.returncode != 0:
        raise engine.BuildError("native build failed:\n" + open(lp, errors="replace").read()[-5000:])
    b = os.path.join(tgt, "release" if profile == "release" else "debug", "verif_native")
    log("native overlay binary (%s) built in %.1fs" % (profile, time.time() - t0))
    return b


def call(binary, args, timeout=120):
    """Run the native binary; returns (rc, stdout, stderr)."""
    try:
        r = subprocess.run([binary] + [str(a) for a in args], capture_output=True, text=True, timeout=timeout,
                           env=dict(os.environ, RUST_BACKTRACE="0"))
        return r.returncode, r.stdout, r.stderr
    except subprocess.TimeoutExpired:
        return -9, "", "timeout"


def consts(ctx):
    if ctx.consts is None:
        rc, out, err = call(ctx.native_bin, ["consts"])
        if rc != 0:
            raise RuntimeError("native consts failed: " + err[-2000:])
        ctx.consts = json.loads(out)
    return ctx.consts


def replay_native(ctx, kind, args, both_profiles=True, abort_is_violation=None):
    """Evaluate the property as written on concrete inputs against the real build.
    The native command prints one JSON object {"violates": bool, "detail": str}.
    A process abort (ub_checks precondition, panic) is reported by rc != 0."""
    out = {}
    if getattr(ctx, "native_bin", None) is None:
        try:
            ctx.native_bin = build(ctx.ov, "dev")
        except engine.BuildError as e:
            return {"reproduced": None, "detail": "native replay build failed: " + str(e)[-300:], "kind": kind, "args": [str(a) for a in args]}
    bins = [("dev", ctx.native_bin)]
    if both_profiles:
        try:
            bins.append(("release", build(ctx.ov, "release")))
        except engine.BuildError as e:
            out["release"] = {"error": str(e)[-500:]}
    reproduced = False
    details = []
    for prof, b in bins:
        if b is None:
            continue
        rc, so, se = call(b, ["replay", kind] + list(args))
        try:
            j = json.loads(so.strip().splitlines()[-1]) if so.strip() else {}
        except Exception:
            j = {}
        crashed = rc != 0
        if abort_is_violation is None:
            # a crash of the replayed conversion is itself the violation for the no-panic / no-UB kinds; for oracle
            # comparisons it is a defect of the replay recipe and must not be reported as a reproduction
            abort_counts = kind in ("conv", "geom", "layout")
        else:
            abort_counts = abort_is_violation
        if crashed and not abort_counts:
            out[prof] = {"rc": rc, "result": j, "stderr_tail": se[-600:]}
            details.append("%s: replay tool aborted rc=%s (not counted) %s" % (prof, rc, se.strip().splitlines()[-1][:160] if se.strip() else ""))
            continue
        v = bool(j.get("violates")) or crashed
        out[prof] = {"rc": rc, "result": j, "stderr_tail": se[-600:] if crashed else ""}
        if v:
            reproduced = True
        details.append("%s: %s" % (prof, j.get("detail") if not crashed else "aborted rc=%s %s" % (rc, se.strip().splitlines()[-1][:200] if se.strip() else "")))
    return {"reproduced": reproduced, "detail": "; ".join(details), "runs": out, "kind": kind, "args": [str(a) for a in args]}


def replay_miri(ctx, kind, args, timeout=900):
    """UB that no native run can observe (to_int_unchecked on NaN): run the same
    replay command under Miri."""
    nd = os.path.join(ctx.ov.root, "native")
    env = engine._env()
    env["RUSTFLAGS"] = "--cfg verif_native"
    env["MIRIFLAGS"] = "-Zmiri-disable-isolation"
    cmd = ["cargo", "+nightly", "miri", "run", "--offline", "--", "replay", kind] + [str(a) for a in args]
    try:
        r = subprocess.run(cmd, cwd=nd, env=env, capture_output=True, text=True, timeout=timeout)
    except subprocess.TimeoutExpired:
        return {"reproduced": None, "detail": "miri timeout"}
    ub = "Undefined Behavior" in r.stderr
    line = ""
    for l in r.stderr.splitlines():
        if "Undefined Behavior" in l:
            line = l.strip()
            break
    if r.returncode != 0 and not ub and "error" in r.stderr and "could not compile" in r.stderr:
        return {"reproduced": None, "detail": "miri build failed: " + r.stderr[-400:]}
    return {"reproduced": ub, "detail": "miri: " + (line or "no UB reported (rc=%d)" % r.returncode), "kind": kind,
            "args": [str(a) for a in args]}


def replay_file(pid, path):
    """bin/vcheck <ID> --replay <file>: re-run a stored counterexample against /repo's current tree."""
    j = json.load(open(path))
    rep = j.get("replay") or {}
    kind, args = rep.get("kind"), rep.get("args")
    if not kind:
        log("replay file has no native replay recipe: " + path)
        return 2
    ov = engine.Overlay(pid.lower() + "-replay")
    try:
        install(ov)

        class C:
            pass
        c = C()
        c.ov = ov
        c.native_bin = build(ov, "dev")
        if rep.get("detail", "").startswith("miri"):
            res = replay_miri(c, kind, args)
        else:
            res = replay_native(c, kind, args)
        log(json.dumps(res, indent=1))
        if res.get("reproduced"):
            log("VIOLATION property=%s replay=%s" % (pid, path))
            return 1
        return 0
    finally:
        ov.cleanup()
