"""Engine Z: exact-rational glue queries, discharged by z3 (SMT-LIB2 on stdin) and
cross-checked with cvc5.  Every query asserts the NEGATION of the end-to-end
statement; `unsat` means the statement holds for all real values in the box."""
import struct
import subprocess
import time
from fractions import Fraction as F

Z3 = "/usr/bin/z3"
CVC5 = "/usr/bin/cvc5"


def f32(bits):
    """exact rational value of an f32 bit pattern"""
    return F(struct.unpack("<f", struct.pack("<I", bits))[0])


def rat(x):
    """SMT-LIB literal for a Fraction"""
    x = F(x)
    n, d = x.numerator, x.denominator
    s = "(/ %d.0 %d.0)" % (abs(n), d) if d != 1 else "%d.0" % abs(n)
    return "(- %s)" % s if n < 0 else s


def dec(s):
    return F(s)


class Query:
    def __init__(self, name, statement):
        self.name = name
        self.statement = statement
        self.lines = ["(set-logic ALL)"]
        self.vars = []

    def real(self, v, lo=None, hi=None):
        self.lines.append("(declare-const %s Real)" % v)
        self.vars.append(v)
        if lo is not None:
            self.lines.append("(assert (>= %s %s))" % (v, rat(lo)))
        if hi is not None:
            self.lines.append("(assert (<= %s %s))" % (v, rat(hi)))
        return v

    def define(self, v, expr):
        self.lines.append("(define-fun %s () Real %s)" % (v, expr))
        return v

    def add(self, expr):
        self.lines.append("(assert %s)" % expr)

    def text(self):
        return "\n".join(self.lines) + "\n(check-sat)\n"

    def run(self, timeout=120, cross=True, want_model=True):
        t0 = time.time()
        txt = self.text()
        res = {"name": self.name, "statement": self.statement, "solver": "z3 4.8.12"}
        st, out = _solve([Z3, "-in", "-T:%d" % timeout], txt, timeout + 10)
        res["status"] = st
        if st == "sat" and want_model:
            _, out = _solve([Z3, "-in", "-T:%d" % timeout], txt + "(get-model)\n", timeout + 10)
            res["model"] = out[:4000]
        if st not in ("sat", "unsat"):
            res["detail"] = out[:300]
        if cross and st in ("sat", "unsat"):
            st2, out2 = _solve([CVC5, "--lang", "smt2", "--tlimit=%d" % (timeout * 1000)], txt, timeout + 10)
            res["cross_check"] = "cvc5 1.0: " + st2
            if st2 in ("sat", "unsat") and st2 != st:
                res["status"] = "disagree"
                res["detail"] = "z3=%s cvc5=%s" % (st, st2)
        res["time_s"] = round(time.time() - t0, 2)
        return res


def _solve(cmd, txt, timeout):
    try:
        r = subprocess.run(cmd, input=txt, capture_output=True, text=True, timeout=timeout)
    except subprocess.TimeoutExpired:
        return "timeout", ""
    out = r.stdout.strip()
    if "(error" in out or "(error" in r.stderr:
        return "error", (out + r.stderr)[:500]
    first = out.splitlines()[0].strip() if out else ""
    if first in ("sat", "unsat", "unknown", "timeout"):
        return first, "\n".join(out.splitlines()[1:])
    return "error", (out + r.stderr)[:500]


def absv(e):
    return "(ite (>= %s 0.0) %s (- %s))" % (e, e, e)


def clamp(e, lo, hi):
    return "(ite (< %s %s) %s (ite (> %s %s) %s %s))" % (e, rat(lo), rat(lo), e, rat(hi), rat(hi), e)


def lin(coeffs, vs, const=0):
    """sum c_i * v_i + const as SMT term"""
    terms = ["(* %s %s)" % (rat(c), v) for c, v in zip(coeffs, vs)]
    if const != 0 or not terms:
        terms.append(rat(const))
    return "(+ %s)" % " ".join(terms) if len(terms) > 1 else terms[0]


U32 = F(1, 2 ** 24)          # unit roundoff of f32 (round to nearest)
ETA32 = F(1, 2 ** 140)       # generous bound for subnormal products


def rho_dot3(m, maxabs):
    """Standard-model bound for the non-FMA evaluation  m0*p0 + (m1*p1 + m2*p2)  in f32
    (3 products, 2 sums, each with relative error <= 2^-24; products may also underflow).
    a_j = |m_j| * max|p_j|."""
    a = [abs(F(mj)) * F(pj) for mj, pj in zip(m, maxabs)]
    u = U32
    return u * (2 * a[0] + 3 * a[1] + 3 * a[2]) * (1 + F(1, 2 ** 18)) + 3 * ETA32


def parse_model(txt):
    """z3 (get-model) output -> {name: Fraction} for Real constants"""
    import re
    out = {}
    toks = re.findall(r"\(|\)|[^\s()]+", txt)
    pos = 0

    def parse():
        nonlocal pos
        t = toks[pos]
        pos += 1
        if t == "(":
            lst = []
            while toks[pos] != ")":
                lst.append(parse())
            pos += 1
            return lst
        return t

    def ev(e):
        if isinstance(e, str):
            return F(e)
        op = e[0]
        if op == "-" and len(e) == 2:
            return -ev(e[1])
        if op == "-":
            return ev(e[1]) - ev(e[2])
        if op == "/":
            return ev(e[1]) / ev(e[2])
        if op == "+":
            return sum(ev(x) for x in e[1:])
        if op == "*":
            r = F(1)
            for x in e[1:]:
                r *= ev(x)
            return r
        raise ValueError(op)
    try:
        tree = parse()
    except Exception:
        return out
    for d in tree if isinstance(tree, list) else []:
        if isinstance(d, list) and len(d) == 5 and d[0] == "define-fun" and d[2] == [] and d[3] == "Real":
            try:
                out[d[1]] = ev(d[4])
            except Exception:
                pass
    return out
