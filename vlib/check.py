"""Orchestration of one property check: overlay -> Kani/CBMC harnesses -> z3 glue
-> counterexample replay -> evidence + exit code."""
import importlib
import json
import os
import re
import sys
import time
import traceback

from . import engine
from .engine import log

VERIF = engine.VERIF
# developer subset runs (VERIF_ONLY) never overwrite the committed evidence
EVID = os.environ.get("VERIF_EVID") or ("/var/tmp/yuvxyb-verif-dev-evidence" if os.environ.get("VERIF_ONLY") else os.path.join(VERIF, "evidence"))
KNOWN = os.path.join(VERIF, "known_findings.json")


def load_known():
    try:
        return json.load(open(KNOWN))["findings"]
    except FileNotFoundError:
        return []


def decode_inputs(inputs):
    """bit strings -> python ints (raw bits) keyed by name."""
    out = {}
    for k, v in (inputs or {}).items():
        try:
            out[k] = int(v["bin"], 2)
        except Exception:
            pass
    return out


def match_finding(pid, hname, failed, known):
    vals = decode_inputs(failed.get("inputs"))
    for k in known:
        if k.get("property") != pid or k.get("status") != "open":
            continue
        if not re.search(k.get("harness", ".*"), hname):
            continue
        if not re.search(k.get("function", ".*"), failed.get("function") or ""):
            continue
        if k.get("class") and k["class"] != failed.get("class"):
            continue
        if k.get("description") and not re.search(k["description"], failed.get("description") or ""):
            continue
        w = k.get("when")
        if w:
            try:
                if not eval(w, {"__builtins__": {}}, dict(vals)):
                    continue
            except Exception:
                continue
        return k
    return None


class Plan:
    def __init__(self):
        self.modules = []        # (relative source path, rust text)
        self.files = []          # (relative path, full text) new files in overlay
        self.prepends = []       # (relative path, text) inserted at the top of a source file of the overlay copy
        self.harnesses = []      # spec dicts
        self.glue = []           # callables(ctx) -> list of query result dicts
        self.pre = []            # callables(ctx) run after build, before harnesses (e.g. constant extraction)
        self.no_default_features = False
        self.stubbing = False
        self.native = False      # build the native overlay binary up front
        self.functions = []      # functions encoded (file:line text)
        self.bounds = []         # stated bounds
        self.outside = []        # what lies outside the claim
        self.assumptions = []
        self.trusted = ["Kani 0.68 MIR->GOTO translation", "CBMC 6.11 IEEE-754 bit-level float encoding",
                        "CaDiCaL (SAT)", "rustc (kani toolchain)"]
        self.extra_builds = []
        self.max_jobs = None     # cap on concurrent CBMC processes for memory-hungry families
        self.late = None         # callable(ctx, plan): add modules/harnesses once the native constants are known   # additional (tag, plan-like) builds, e.g. --no-default-features


class Ctx:
    def __init__(self, pid, tier, seed):
        self.pid, self.tier, self.seed = pid, tier, seed
        self.ov = None
        self.native_bin = None
        self.consts = None
        self.results = {}
        self.glue_results = []
        self.notes = []


def run_property(pid, tier, seed, jobs):
    t0 = time.time()
    mod = importlib.import_module("props." + pid)
    ctx = Ctx(pid, tier, seed)
    plan = mod.plan(tier, seed)
    known = load_known()
    violations = []      # (text, replay path)
    findings = []
    inconclusive = []
    ov = engine.Overlay(pid.lower())
    ctx.ov = ov
    codegen_s = 0.0
    exit_code = 0
    try:
        from . import native
        native.install(ov)
        if plan.native or plan.pre or plan.glue or plan.late:
            try:
                ctx.native_bin = native.build(ov, "dev")
            except engine.BuildError as e:
                log("INCONCLUSIVE: native overlay build failed\n" + str(e)[-3000:])
                inconclusive.append("native overlay build failed")
        for f in plan.pre:
            if ctx.native_bin:
                f(ctx)
        if plan.late and ctx.native_bin:
            # harnesses that embed constants extracted from the real code (K-lemmas) are generated now
            plan.late(ctx, plan)
        only = os.environ.get("VERIF_ONLY")     # developer aid: run a subset of the harnesses (never used by registered commands)
        if only:
            plan.harnesses = [h for h in plan.harnesses if re.search(only, h["name"])]
            if os.environ.get("VERIF_NOGLUE"):
                plan.glue = []
        for rel, text in plan.modules:
            ov.append(rel, text)
        for rel, text in plan.files:
            ov.write(rel, text)
        for rel, text in plan.prepends:
            ov.prepend(rel, text)
        metas = {}
        if plan.harnesses:
            ov.seed_target("kani")
            try:
                metas, codegen_s = engine.kani_codegen(ov, plan.no_default_features, plan.stubbing, only=[h["name"] for h in plan.harnesses])
                log("codegen: %d harnesses compiled in %.1fs" % (len(metas), codegen_s))
            except engine.BuildError as e:
                log("INCONCLUSIVE: harness build failed (a private item the harness names may have changed)\n" + str(e)[-4000:])
                inconclusive.append("harness build failed")
                plan.harnesses = []
        results = engine.run_all(ov, metas, plan.harnesses, min(jobs, plan.max_jobs) if plan.max_jobs else jobs) if plan.harnesses else {}
        ctx.results = results
        # ---- classify harness results
        nrep = 0
        for spec in plan.harnesses:
            r = results[spec["name"]]
            if spec.get("expect_fail"):
                # vacuity twin: must FAIL on the named assertion
                ok = r.status == "fail" and any(spec["expect_fail"] in (f["description"] or "") for f in r.failed)
                if not ok:
                    inconclusive.append("vacuity twin %s did not fail (%s)" % (spec["name"], r.status))
                continue
            if r.status in ("timeout", "oom", "error", "unwind"):
                inconclusive.append("%s: %s %s" % (spec["name"], r.status, r.detail))
                continue
            for c in spec.get("covers", []):
                if not r.covers.get(c, False):
                    inconclusive.append("%s: vacuity witness cover '%s' not satisfied" % (spec["name"], c))
            if r.status == "pass":
                continue
            # failures: de-duplicate by (function,class,description)
            seen = set()
            for f in r.failed:
                if spec.get("only_classes") and f["class"] not in spec["only_classes"]:
                    continue    # harness observes a sub-clause only (e.g. UB, not panics)
                key = (f["function"], f["class"], f["description"])
                if key in seen:
                    continue
                seen.add(key)
                k = match_finding(pid, spec["name"], f, known)
                if k is not None:
                    findings.append((k, spec["name"], f))
                    continue
                if spec.get("finding_only"):
                    # harness dedicated to a known finding's input class: anything unmatched is new
                    pass
                rep = None
                if spec.get("replay"):
                    try:
                        rep = spec["replay"](ctx, spec, f)
                    except Exception as e:
                        rep = {"reproduced": None, "detail": "replay error: %r" % (e,)}
                nrep += 1
                rp = os.path.join(EVID, "replays", "%s-%d.json" % (pid, nrep))
                os.makedirs(os.path.dirname(rp), exist_ok=True)
                json.dump({"property": pid, "harness": spec["name"], "obligation": spec.get("obligation"),
                           "failed_check": {k2: v for k2, v in f.items() if k2 != "inputs"},
                           "inputs": f.get("inputs"), "replay": rep,
                           "replay_cmd": "bin/vcheck %s --replay %s" % (pid, rp)},
                          open(rp, "w"), indent=1)
                if rep and rep.get("reproduced") is True:
                    violations.append(("%s: %s [%s] %s" % (spec["name"], f["description"], f["class"], rep.get("detail", "")), rp))
                else:
                    inconclusive.append("%s: solver counterexample for '%s' (%s in %s) did not reproduce as a property violation natively: %s [%s]" % (
                        spec["name"], f["description"], f["class"], f["function"], (rep or {}).get("detail", "no replay available"), rp))
        # ---- glue
        for g in plan.glue:
            try:
                qs = g(ctx)
            except Exception as e:
                traceback.print_exc()
                qs = [{"name": getattr(g, "__name__", "glue"), "status": "error", "detail": repr(e)}]
            for q in qs:
                ctx.glue_results.append(q)
                if q["status"] == "unsat":
                    continue
                if q["status"] == "sat":
                    rep = q.get("replay")
                    nrep += 1
                    rp = os.path.join(EVID, "replays", "%s-%d.json" % (pid, nrep))
                    os.makedirs(os.path.dirname(rp), exist_ok=True)
                    json.dump({"property": pid, "glue_query": q["name"], "model": q.get("model"), "replay": rep}, open(rp, "w"), indent=1)
                    if rep and rep.get("reproduced") is True:
                        violations.append(("glue %s: %s" % (q["name"], rep.get("detail", "")), rp))
                    else:
                        inconclusive.append("glue %s: sat but not reproduced natively (%s) [%s]" % (q["name"], (rep or {}).get("detail", "no replay"), rp))
                else:
                    inconclusive.append("glue %s: %s %s" % (q["name"], q["status"], q.get("detail", "")))
    finally:
        ov.cleanup()
    wall = time.time() - t0
    # ---- report
    for k, hname, f in findings:
        log("KNOWN-FINDING: property=%s %s (harness %s: %s in %s)" % (pid, k["text"], hname, f["description"], f["function"]))
    for text, rp in violations:
        log("VIOLATION property=%s replay=%s" % (pid, rp))
        log("  " + text)
    for t in inconclusive:
        log("INCONCLUSIVE: " + t)
    if violations:
        exit_code = 1
    elif inconclusive:
        exit_code = 2
    write_evidence(pid, tier, seed, plan, ctx, wall, codegen_s, violations, findings, inconclusive)
    log("%s tier=%s: %s in %.0fs (harnesses %d, glue queries %d)" % (
        pid, tier, {0: "HELD within stated bounds", 1: "VIOLATED", 2: "INCONCLUSIVE"}[exit_code], wall,
        len(plan.harnesses), len(ctx.glue_results)))
    return exit_code


def write_evidence(pid, tier, seed, plan, ctx, wall, codegen_s, violations, findings, inconclusive):
    os.makedirs(EVID, exist_ok=True)
    hs = []
    queries = 0
    nontrivial = set()
    solver_s = 0.0
    for spec in plan.harnesses:
        r = ctx.results.get(spec["name"])
        if r is None:
            continue
        solver_s += r.solver_s
        queries += r.checks + len(r.covers)
        if r.checks > 0 and not spec.get("expect_fail"):
            nontrivial.add(spec["name"])
        hs.append({
            "harness": spec["name"], "family": spec.get("family"), "obligation": spec.get("obligation"),
            "symbolic": spec.get("sym"), "status": r.status, "detail": r.detail,
            "cbmc_checks": r.checks, "cbmc_checks_success": r.checks_ok, "ignored_nan_class_checks": r.ignored,
            "cover_witnesses": r.covers, "unwind": spec.get("unwind"), "unwindset": spec.get("unwindset"),
            "sat_variables": r.vars, "sat_clauses": r.clauses, "solver_s": round(r.solver_s, 2),
            "wall_s": round(r.wall, 1), "vacuity_twin": bool(spec.get("expect_fail")),
            "failed": [{k: v for k, v in f.items()} for f in r.failed][:5],
        })
    gl = []
    for q in ctx.glue_results:
        queries += 1
        nontrivial.add("glue:" + q["name"])
        solver_s += q.get("time_s", 0.0)
        gl.append({k: v for k, v in q.items() if k in ("name", "status", "solver", "time_s", "detail", "statement", "cross_check")})
    samples = []
    for h in hs[:6]:
        samples.append({"harness": h["harness"], "obligation": h["obligation"], "symbolic": h["symbolic"], "status": h["status"]})
    for q in gl[:4]:
        samples.append({"glue_query": q["name"], "statement": q.get("statement"), "status": q["status"]})
    if not samples:
        samples.append({"note": "no obligation could be run", "inconclusive": inconclusive[:3]})
    ev = {
        "property_id": pid, "tier": tier, "seed": seed, "level": "model_checking",
        "coverage": {
            "evaluations": max(queries, 1),
            "distinct_nontrivial": len(nontrivial),
            "rule": "one evaluation = one solver-decided check (a CBMC property or cover witness of a harness, or one z3 glue query); "
                    "distinct_nontrivial = distinct harness/glue obligations that contained at least one check outside Kani's ignored NaN class (vacuity twins excluded)",
            "samples": samples,
            "functions_encoded": plan.functions,
            "bounds": plan.bounds,
            "outside_claim": plan.outside,
            "harnesses": hs,
            "glue_queries": gl,
            "solver_time_s": round(solver_s, 1),
            "kani_codegen_s": round(codegen_s, 1),
            "counterexamples_replayed": len(violations) + sum(1 for t in inconclusive if "did not reproduce" in t),
            "known_findings_hit": [k["id"] for k, _, _ in findings],
            "inconclusive": inconclusive,
            "trusted_base": plan.trusted,
            "verdict": "violated" if violations else ("inconclusive" if inconclusive else "held"),
            "notes": ctx.notes,
        },
        "assumptions": plan.assumptions,
        "wall_s": round(wall, 1),
        "violations": len(violations),
    }
    json.dump(ev, open(os.path.join(EVID, pid + ".json"), "w"), indent=1)


def main(argv):
    import argparse
    ap = argparse.ArgumentParser()
    ap.add_argument("pid")
    ap.add_argument("--tier", default=os.environ.get("VERIF_TIER", "quick"))
    ap.add_argument("--jobs", type=int, default=int(os.environ.get("VERIF_JOBS", "14")))
    ap.add_argument("--replay")
    a = ap.parse_args(argv)
    seed = int(os.environ.get("VERIF_SEED", "0") or 0)
    if a.tier not in ("quick", "thorough"):
        a.tier = "quick"
    sys.path.insert(0, VERIF)
    if a.replay:
        from . import native
        return native.replay_file(a.pid, a.replay)
    return run_property(a.pid, a.tier, seed, a.jobs)
