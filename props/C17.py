"""C17 - HSL hexcone model (forward direction)."""
from vlib.check import Plan
from vlib import native

MOD = r'''
#[cfg(kani)]
#[allow(dead_code, unused_imports, clippy::all, clippy::pedantic, clippy::nursery)]
mod verif_c17 {
    use crate::*;
    fn unit(x: f32) -> bool { x >= 0.0 && x <= 1.0 }
    fn conv(r: f32, g: f32, b: f32) -> [f32; 3] {
        let h = Hsl::from(LinearRgb::new(vec![[r, g, b]], 1, 1).unwrap());
        assert!(h.width() == 1 && h.height() == 1 && h.data().len() == 1, "dimensions preserved");
        h.data()[0]
    }
    fn grid(k: u8) -> f32 { (k as f32) * 0.015625 }
    const HUE_STEP: u8 = @HUESTEP@;

    #[kani::proof]
    #[kani::unwind(5)]
    fn k_c17_range() {
        let in_r: f32 = kani::any(); let in_g: f32 = kani::any(); let in_b: f32 = kani::any();
        kani::assume(unit(in_r) && unit(in_g) && unit(in_b));
        let o = conv(in_r, in_g, in_b);
        assert!(o[0] >= 0.0 && o[0] < 360.0, "H in [0,360)");
        assert!(o[1] >= 0.0 && o[1] <= 1.0, "S in [0,1]");
        assert!(o[2] >= 0.0 && o[2] <= 1.0, "L in [0,1]");
        kani::cover!(in_r > in_g && in_b > in_g && in_r > in_b, "red max with green < blue explored");
        kani::cover!(o[2] < 1.0e-4 && o[1] > 0.5, "very dark saturated colour explored");
    }
    #[kani::proof]
    #[kani::unwind(5)]
    fn k_c17_lightness() {
        let in_r: f32 = kani::any(); let in_g: f32 = kani::any(); let in_b: f32 = kani::any();
        kani::assume(unit(in_r) && unit(in_g) && unit(in_b));
        let o = conv(in_r, in_g, in_b);
        let (r, g, b) = (in_r as f64, in_g as f64, in_b as f64);
        let mx = if r >= g && r >= b { r } else if g >= b { g } else { b };
        let mn = if r <= g && r <= b { r } else if g <= b { g } else { b };
        assert!((o[2] as f64 - (mx + mn) / 2.0).abs() <= 1e-6, "L within 1e-6 of (max+min)/2");
        kani::cover!(mx - mn > 0.5, "saturated colour explored");
    }
    #[kani::proof]
    #[kani::unwind(5)]
    fn k_c17_grey() {
        let in_g: f32 = kani::any();
        kani::assume(unit(in_g));
        let o = conv(in_g, in_g, in_g);
        assert!(o[0] == 0.0 && o[1] == 0.0 && o[2] == in_g, "grey: hue 0, saturation 0, L = grey level");
    }
    #[kani::proof]
    #[kani::unwind(5)]
    fn k_c17_saturation_grid() {
        let in_r: u8 = kani::any(); let in_g: u8 = kani::any(); let in_b: u8 = kani::any();
        kani::assume(in_r <= 64 && in_g <= 64 && in_b <= 64);
        let o = conv(grid(in_r), grid(in_g), grid(in_b));
        let (r, g, b) = (in_r as i32, in_g as i32, in_b as i32);
        let mx = if r >= g && r >= b { r } else if g >= b { g } else { b };
        let mn = if r <= g && r <= b { r } else if g <= b { g } else { b };
        let l2 = mx + mn;                       // L*128
        if l2 * 100 >= 128 && l2 * 100 <= 99 * 128 {
            let d = 64 - (l2 - 64).abs();       // (1-|2L-1|)*64
            // S = (max-min)/(1-|2L-1|)  <=>  |S*d - (max-min)| <= 1e-4*d   (d > 0 here)
            let s = o[1] as f64;
            assert!((s * (d as f64) - ((mx - mn) as f64)).abs() <= 1e-4 * (d as f64), "S within 1e-4 of the hexcone saturation");
            kani::cover!(mx - mn > 10, "saturated colour explored");
        }
    }
    #[kani::proof]
    #[kani::unwind(5)]
    fn k_c17_hue_grid() {
        let in_r: u8 = kani::any(); let in_g: u8 = kani::any(); let in_b: u8 = kani::any();
        kani::assume(in_r <= 64 && in_g <= 64 && in_b <= 64);
        kani::assume(HUE_STEP == 1 || (in_r % HUE_STEP == 0 && in_g % HUE_STEP == 0 && in_b % HUE_STEP == 0));
        let o = conv(grid(in_r), grid(in_g), grid(in_b));
        let (r, g, b) = (in_r as i32, in_g as i32, in_b as i32);
        let mx = if r >= g && r >= b { r } else if g >= b { g } else { b };
        let mn = if r <= g && r <= b { r } else if g <= b { g } else { b };
        let c = mx - mn;
        if c >= 1 {     // max-min >= 1/64 >= 0.01
            let num = if mx == r { g - b } else if mx == g { 2 * c + (b - r) } else { 4 * c + (r - g) };
            let num = if num < 0 { num + 6 * c } else { num };      // sextant of the maximum channel, wrapped to [0,6)
            let h = o[0] as f64;
            let e0 = (h * (c as f64) - 60.0 * (num as f64)).abs();
            let e1 = (h * (c as f64) - 60.0 * (num as f64) + 360.0 * (c as f64)).abs();
            assert!(e0 <= 0.01 * (c as f64) || e1 <= 0.01 * (c as f64), "H within 0.01 degrees of the hexcone hue");
            kani::cover!(mx == r && g < b, "red max with green < blue explored");
            kani::cover!(mx == b && mx != r && mx != g, "blue max explored");
        }
    }
    #[kani::proof]
    #[kani::unwind(5)]
    fn k_c17_twin_must_fail() {
        let in_r: f32 = kani::any(); let in_g: f32 = kani::any(); let in_b: f32 = kani::any();
        kani::assume(unit(in_r) && unit(in_g) && unit(in_b));
        let o = conv(in_r, in_g, in_b);
        assert!(o[0] < 300.0, "vacuity twin");
    }
}
'''


def replay(ctx, spec, f):
    ins = {k: int(v["bin"], 2) for k, v in (f.get("inputs") or {}).items()}
    if spec.get("grid"):
        import struct
        need = ["in_r", "in_g", "in_b"]
        if any(k not in ins for k in need):
            return {"reproduced": None, "detail": "inputs not found"}
        bits = ["%x" % struct.unpack("<I", struct.pack("<f", ins[k] / 64.0))[0] for k in need]
    elif spec["name"] == "k_c17_grey":
        if "in_g" not in ins:
            return {"reproduced": None, "detail": "inputs not found"}
        bits = ["%x" % ins["in_g"]] * 3
    else:
        need = ["in_r", "in_g", "in_b"]
        if any(k not in ins for k in need):
            return {"reproduced": None, "detail": "inputs not found"}
        bits = ["%x" % ins[k] for k in need]
    return native.replay_native(ctx, "hsl", bits)


def plan(tier, seed):
    p = Plan()
    p.modules.append(("src/lib.rs", MOD.replace("@HUESTEP@", "1" if tier == "thorough" else "2")))
    mk = lambda n, obl, sym, covers, to=900, **kw: dict(name=n, family="c17", obligation=obl, sym=sym, covers=covers, timeout=to, mem_gb=10, replay=replay, **kw)
    p.harnesses = [
        mk("k_c17_range", "H in [0,360), S in [0,1], L in [0,1] for every pixel of [0,1]^3", "3 components: every f32 in [0,1] (2^90 pixels)", ["red max with green < blue explored", "very dark saturated colour explored"]),
        mk("k_c17_lightness", "L within 1e-6 of (max+min)/2", "3 components: every f32 in [0,1]", ["saturated colour explored"]),
        mk("k_c17_grey", "grey -> (0, 0, grey level) exactly", "grey level: every f32 in [0,1]", []),
        mk("k_c17_saturation_grid", "S within 1e-4 of (max-min)/(1-|2L-1|) when 0.01<=L<=0.99", "components on the fixed-point grid k/64, k=0..64 (65^3 pixels, symbolic)", ["saturated colour explored"], grid=True),
        mk("k_c17_hue_grid", "H within 0.01 degrees of the sextant formula (circular distance) when max-min >= 1/64", "components on the grid k/64 (thorough: 65^3 pixels) resp. k/32 (quick: 33^3 pixels), symbolic", ["red max with green < blue explored", "blue max explored"], to=1800, grid=True),
        mk("k_c17_twin_must_fail", "vacuity twin", "as range", [], expect_fail="vacuity twin"),
    ]
    p.functions = ["Hsl::from(LinearRgb) / lrgb_to_hsl (src/hsl.rs:85)"]
    p.bounds = ["range, lightness, grey clauses: every f32 pixel of [0,1]^3", "saturation and hue accuracy clauses: pixels on the 65^3 fixed-point grid k/64 only (a symbolic x symbolic f64 product against the f32 quotient does not finish for full-width operands: >1200 s)"]
    p.outside = ["LinearRgb::from(Hsl), the round trip and the L=0 -> black / L=1 -> white clauses: hsl_to_lrgb uses the float % operator, which this CBMC evaluates incorrectly even on constants - any verdict would be meaningless",
                 "saturation/hue accuracy off the k/64 grid"]
    p.assumptions = ["f64 oracle arithmetic is exact on the grid (all intermediate integers < 2^20)"]
    return p


MANIFEST = dict(
    technique="bounded model checking of the real lrgb_to_hsl through the public API (Kani/CBMC): all floats of [0,1]^3 for range/lightness/grey, symbolic 65^3 fixed-point grid with an exact integer hexcone oracle for saturation and hue",
    text="Range (H in [0,360), S,L in [0,1]), lightness and grey clauses are decided for every f32 pixel in [0,1]^3; the saturation and hue formulas against an integer-exact hexcone oracle on a symbolic 65^3 grid. "
         "Found and fixed: negative hue (F3) and saturation > 1 for very dark colours (F8).",
    note="Inverse direction (HSL->RGB) not claimed: float % is mis-modelled by CBMC 6.11. Accuracy clauses bounded to the k/64 grid.",
)
