"""C10 - gamma->linear->gamma is the identity within half a 10-bit step."""
from vlib.check import Plan
from props import curves as CV

RT = ["BT1886", "BT470M", "BT470BG", "SRGB", "XVYCC", "PQ"]

FULL = r'''
    #[kani::proof]
    #[kani::unwind(5)]
    fn k_cv_rt_linear_hlg() {
        let in_x: f32 = kani::any();
        // (247 s measured: sqrt(3*(x*x*(1/3))) over every f32 of [0,0.5])
        let l = gam1(TC::Linear, lin1(TC::Linear, in_x));
        assert!(l.to_bits() == in_x.to_bits(), "Linear round trip is the bit-exact identity");
        if in_x >= 0.0 && in_x <= 0.5 {
            let y = gam1(TC::HybridLogGamma, lin1(TC::HybridLogGamma, in_x));
            assert!((y - in_x).abs() < 2.5e-4, "HLG round trip on [0,0.5] (sqrt(3*(x^2/3)))");
        }
        if in_x >= 0.0 && in_x < 0.0030 {
            let y = gam1(TC::SRGB, lin1(TC::SRGB, in_x));
            assert!((y - in_x).abs() < 2.5e-4, "sRGB round trip on its linear segment");
        }
        kani::cover!(in_x > 0.25 && in_x < 0.5, "HLG range explored");
    }
'''


def plan(tier, seed):
    p = Plan()
    thorough = tier == "thorough"
    g = 2
    pts = CV.grid(g)
    chunk = 64
    gs = 10 if thorough else 6
    spts = CV.grid(gs)
    txt = CV.PRELUDE + FULL
    hs = [dict(name="k_cv_rt_linear_hlg", family="full", timeout=1200, mem_gb=10, replay=CV.replay_curve, rk="all", curve="HLG",
               obligation="Linear: bit-exact identity for all inputs; HLG round trip on [0,0.5]; sRGB round trip on its linear segment", sym="x: all f32 (Linear), every f32 in [0,0.5] (HLG), [0,0.003) (sRGB)",
               covers=["HLG range explored"])]
    for name in RT:
        # public-API tie on a small grid (PQ: 8 fast-powf evaluations per round trip, ~30 s of SAT time per input)
        use = pts if name != "PQ" else ([0.0, 0.0625, 0.25, 0.5, 1.0] if thorough else [0.5, 1.0])
        for c in range(0, len(use), chunk):
            sub = use[c:c + chunk]
            n, code = CV.rt_harness(name, sub, c // chunk)
            txt += code
            hs.append(dict(name=n, family="roundtrip", timeout=3000 if name == "PQ" else 1500, mem_gb=10, replay=CV.replay_curve, rk="grid", mode="rt", curve=name, xs=[CV.bits_of(x) for x in sub],
                           obligation="%s: to_gamma(to_linear(x)) within %.1e of x (real fast powf both ways)" % (name, 5.7e-4 if name == "PQ" else 2.5e-4),
                           sym="x on the reduced-precision grid: %d inputs with <= %d mantissa bits (symbolic index)" % (len(sub), g), covers=["last grid point explored"]))
    stxt = CV.SCALAR_PRELUDE
    for name in RT:
        # sRGB's round trip composes a division with two powf calls and a fused multiply-add: ~3 s of SAT time per input
        # PQ: 8 fast-powf evaluations per round trip, 40-50 s of SAT time per input
        use = ((CV.grid(3) if thorough else [0.0, 0.015625, 0.125, 0.25, 0.5, 0.75, 1.0]) if name == "PQ" else (CV.grid(6 if thorough else 3) if name == "SRGB" else spts))
        ch = 2048 if name != "PQ" else 4
        for c in range(0, len(use), ch):
            sub = use[c:c + ch]
            n, code = CV.rt_scalar(name, sub, c // ch)
            stxt += code
            hs.append(dict(name=n, family="roundtrip-scalar", timeout=3000, mem_gb=10, replay=CV.replay_curve, rk="grid", mode="rt", curve=name, xs=[CV.bits_of(x) for x in sub],
                           obligation="%s: to_gamma(to_linear(x)) within %.1e of x (scalar kernels, real fast powf both ways)" % (name, 5.7e-4 if name == "PQ" else 2.5e-4),
                           sym="x on the reduced-precision grid: %d inputs (symbolic index)" % len(sub), covers=["last grid point explored"]))
    stxt += "}\n"
    p.modules.append(("src/yuv_rgb/transfer.rs", stxt))
    txt += CV.EPILOGUE
    p.modules.append(("src/lib.rs", txt))
    p.harnesses = hs
    p.functions = ["all scalar transfer curves in both directions (src/yuv_rgb/transfer.rs)", "yuvxyb_math::powf / exp2 / log2 (real)"]
    p.bounds = ["oracle-free round trip of the scalar kernels on the reduced-precision grid (<= %d mantissa bits, %d inputs per curve; PQ %d inputs: it costs 40-50 s of SAT time per input) for the BT.1886 family, BT.470M, BT.470BG, sRGB, xvYCC, PQ, plus a small public-API tie; full domain for Linear, HLG on [0,0.5], sRGB linear segment" % (gs, len(spts), len(CV.grid(3)) if thorough else 7)]
    p.outside = ["Log100, Log316 and HLG above 0.5: their to_gamma uses log10/ln (over-approximated by Kani: a spurious counterexample would be guaranteed)", "inputs off the grid",
                 "aliases of BT.1886 (bit-identical to it by C03's alias lemma)"]
    p.assumptions = ["non-FMA build"]
    return p


MANIFEST = dict(
    technique="bounded model checking of the real curves composed both ways through the public API (Kani/CBMC), oracle-free, on a symbolic reduced-precision grid; full-domain lemmas for the arithmetic cases",
    text="to_gamma(to_linear(x)) is compared with x using the real fast powf in both directions for every grid input (50 per curve quick, 770 thorough); Linear, HLG on [0,0.5] and the sRGB linear segment are decided for every f32.",
    note="Bounded to the grid; curves through ln/log10 are outside. Non-FMA build.",
)
