"""C01 - YUV->RGB decoding equals the H.273 definition for every code triple."""
import random
import os
from vlib.check import Plan
from vlib import native
from props import yuvfam as Y


def w_instances(tier, seed, per_quick=1, light=False):
    """(T, bd, full, matrix index) instances for the wiring lemmas: thorough = all 20 x 7; quick = every matrix
    at least once, spread over a seeded choice of (storage, depth, range) instances"""
    if tier == "thorough":
        return [(T, bd, f, mi) for (T, bd, f) in Y.CFGS for mi in range(7)]
    cfgs = select_cfgs(tier, seed)
    if light:   # encode wiring lemmas at 13..16 bit take 10+ minutes each: quick tier stays at <= 12 bit (all depths in thorough)
        cfgs = [("u8", 8, False), ("u8", 8, True), ("u16", 10, False), ("u16", 12, True), ("u16", 9, True), ("u16", 11, False)]
    out = []
    for mi in range(7):
        for k in range(per_quick):
            out.append(cfgs[(mi + k * 3 + seed) % len(cfgs)] + (mi,))
    return out


def select_cfgs(tier, seed):
    if tier == "thorough":
        return list(Y.CFGS)
    base = [("u8", 8, False), ("u8", 8, True), ("u16", 10, False), ("u16", 16, True)]
    rest = [c for c in Y.CFGS if c not in base]
    random.Random(seed).shuffle(rest)
    return base + rest[:2]


def plan(tier, seed):
    p = Plan()
    p.native = True
    p.stubbing = True
    p.modules.append(("yuvxyb-math/src/matrix.rs", open(os.path.join(os.path.dirname(__file__), "..", "harness", "math_stub.rs")).read()))
    p.modules.append(("src/yuv.rs", open(os.path.join(os.path.dirname(__file__), "..", "harness", "yuv_unchecked.rs")).read()))
    p.modules.append(("yuvxyb-math/src/lib.rs", open(os.path.join(os.path.dirname(__file__), "..", "harness", "math_stub_lib.rs")).read()))
    wcfgs = w_instances(tier, seed)

    def late(ctx, plan):
        consts = native.consts(ctx)
        txt = Y.PRELUDE
        hs = []
        for (T, bd, full) in Y.CFGS:
            n, code = Y.a_lemma(T, bd, full)
            txt += code
            hs.append(dict(name=n, family="A", timeout=900, mem_gb=8, rkind="a", cfg=(T, bd, full), replay=Y.replay_codes,
                           obligation="A-lemma %s %d-bit %s: to_f32_luma/to_f32_chroma within %.1e of the H.273 normalisation (clamped), black/white/neutral anchors" % (T, bd, "full" if full else "limited", float(Y.EPS_A)),
                           sym="code: every value in [0,2^%d)" % bd, covers=["white code explored", "mid-range code explored"]))
        for (n, code, mc) in Y.k_lemma(consts):
            txt += code
            hs.append(dict(name=n, family="K", timeout=600, mem_gb=8, replay=None,
                           obligation="K-lemma %s: the matrices the real code builds (get_yuv_to_rgb_matrix: kr/kb table, ncl_rgb_to_yuv_matrix_from_kr_kb, Matrix::invert) equal the extracted f32 constants used by the glue, bit for bit" % Y.MC_NAME[mc],
                           sym="none (concrete symbolic execution: also cross-checks CBMC's float semantics against the hardware)", covers=[]))
        for (T, bd, full, mi) in wcfgs:
            n, code = Y.w_decode(T, bd, full, mi)
            txt += code
            hs.append(dict(name=n, family="W", timeout=1500, mem_gb=28, rkind="wd", cfg=(T, bd, full), mi=mi, replay=Y.replay_codes,
                           obligation="W-lemma %s %d-bit %s %s: Rgb::try_from(&Yuv) on a 1x1 frame == M * normalised(Y,U,V), dot product evaluated m0*p0+(m1*p1+m2*p2) in f32, bit for bit; dimensions and labels preserved" % (T, bd, "full" if full else "limited", Y.MC_NAME[Y.MC_STD[mi]]),
                           sym="codes: all triples in [0,2^%d)^3" % bd, covers=["mid-range output explored"]))
        for row in range(3):
            n, code = Y.s_lemma(row)
            txt += code
            hs.append(dict(name=n, family="S", timeout=1500, mem_gb=10, replay=None,
                           obligation="S-lemma row %d: the real Matrix::mul_arr is bit-identical to the straight-line f32 expression m0*p0 + (m1*p1 + m2*p2) (3 products, 2 sums; what the standard-model bound in the glue is about)" % row,
                           sym="vector: every f32 in [-2,2]^3; the row's 3 coefficients on the fixed-point grid k/64, |k|<=128 (full-width coefficients make SAT prove the equivalence of two 24x24 multiplier circuits: >1500 s); other rows generic constants",
                           covers=["non-trivial coefficients explored"]))
        txt += Y.EPILOGUE
        plan.modules.append(("src/yuv_rgb.rs", txt))
        plan.harnesses = hs

    def g(ctx):
        consts = native.consts(ctx)
        out = []
        # the glue is only as good as the lemmas of this run: skip configurations whose A-lemma did not pass
        for (T, bd, full) in Y.CFGS:
            if T == "u8" and ("u16", 8, full) in Y.CFGS and False:
                continue
            r = ctx.results.get("k_yr_a_" + Y.cname(T, bd, full))
            if r is None or r.status != "pass":
                continue
            if T == "u8":
                continue   # same real-valued statement as u16/8-bit
            for mc in Y.MC_STD:
                for q in Y.glue_c01(consts, mc, bd, full):
                    res = q.run(cross=(bd in (8, 16)))
                    if res["status"] == "sat":
                        res["replay"] = Y.replay_glue(ctx, q, res, "c01", mc, bd, full)
                    out.append(res)
        return out
    p.late = late
    p.glue = [g]
    p.functions = ["get_scale_offset::<true>, pixel_range, pixel_offset, to_f32_luma, to_f32_chroma, ycbcr_to_ypbpr (src/yuv_rgb.rs)",
                   "get_yuv_to_rgb_matrix, get_rgb_to_yuv_matrix, ncl_rgb_to_yuv_matrix, ncl_rgb_to_yuv_matrix_from_kr_kb, get_yuv_constants, yuv_to_rgb (src/yuv_rgb/color.rs)",
                   "Matrix::invert, Matrix::mul_arr, scalar_div, transpose (yuvxyb-math/src/matrix.rs)", "Rgb::try_from(&Yuv<T>) (src/rgb.rs), Yuv::new"]
    p.bounds = ["A-lemma: every code at every depth 8..16, both ranges, u8 and u16 storage (20 instances, all run in both tiers)",
                "K-lemma: all 7 matrices", "W-lemma: all code triples on 1x1 frames for %d of the 140 (storage, depth, range, matrix) instances%s" % (len(wcfgs), "" if tier == "thorough" else " (quick tier: every matrix once, seeded choice of depth/range; thorough: all 140)"),
                "glue: 7 matrices x 2 ranges x 9 depths x 3 components, codes relaxed to reals (strictly stronger)"]
    p.outside = ["image layout / subsampling (C11)", "FMA build (the standard-model bound also covers fused evaluation, but Kani compiles the non-FMA branch only)"]
    p.assumptions = ["W-lemmas replace Matrix::mul_arr on both sides by one pure bit-mixing stand-in (they decide the wiring: which matrix, which inputs, in which order); that the real mul_arr is the 5-operation f32 expression is the S-lemma, proved for coefficient rows on the k/64 grid and every vector - mul_arr has no data-dependent control flow, so the same operation DAG is executed for full-width coefficients (argument, not a solver result)",
                     "IEEE-754 standard model for the 3 products and 2 sums of the dot product (relative error <= 2^-24 each, products may underflow by <= 2^-140): used by the z3 glue, not re-proved",
                     "H.273 Kr/Kb constants and the YCgCo lifting matrix transcribed in props/yuvfam.py"]
    p.trusted += ["z3 4.8.12 (QF_LRA), cross-checked with cvc5 1.0 on the 8- and 16-bit queries"]
    return p


MANIFEST = dict(
    z3=True,
    technique="Kani/CBMC bounded model checking of the real kernels (all codes; all code triples on 1x1 frames) + z3 linear-real-arithmetic glue over the real code's extracted f32 matrices",
    text="Every (matrix, range, depth) configuration: the normalisation kernels are proved against the H.273 formula for every code (bit-precise, f64 oracle); the public decode is proved bit-identical to the kernel composition "
         "for all code triples and all 7 matrices; the matrices are tied to extracted constants; z3 then proves |R,G,B - H.273| <= 3e-6 for all real code triples from those contracts, the exact f32 coefficients and the IEEE standard model of one dot product.",
    note="Trusted: IEEE standard model for the dot product's 5 roundings; Kr/Kb transcription; Kani/CBMC/z3. 1x1 frames (layout is C11). Non-FMA build.",
)
