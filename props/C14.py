"""C14 - support and error contract over every fully specified metadata combination."""
from vlib.check import Plan
from vlib import native

MOD = r'''
#[cfg(kani)]
#[allow(dead_code, unused_imports, clippy::all, clippy::pedantic, clippy::nursery)]
mod verif_c14 {
    use crate::verif_common::*;
    use crate::*;
    use crate::ConversionError as E;

    // pure stand-ins: only Ok/Err and data-independence are observed here
    fn stub_powf(x: f32, _y: f32) -> f32 { x }
    fn stub_expf(x: f32) -> f32 { x }
    fn stub_cbrtf(x: f32) -> f32 { x }
    /// stand-in for the 18 image-level curve loops (image_*_eotf/oetf): the Ok/Err contract is decided by the dispatch in
    /// to_linear/to_gamma, not by what the loops compute
    fn stub_image(v: Vec<[f32; 3]>) -> Vec<[f32; 3]> { v }
    /// stand-ins for the data paths of the multi-stage harnesses (only success/failure, errors, config and dimensions are observed there)
    fn stub_decode_planes<T: Pixel>(input: &Yuv<T>) -> Vec<[f32; 3]> { vec![[0.5, 0.0, 0.0]; input.width() * input.height()] }
    fn stub_vec_identity(v: Vec<[f32; 3]>) -> Vec<[f32; 3]> { v }
    /// unpadded stand-in for Plane::new (allocation of 64-byte aligned rows dominates otherwise; layout is C11's subject)
    fn stub_plane_new<T: Pixel>(width: usize, height: usize, xdec: usize, ydec: usize, _xpad: usize, _ypad: usize) -> Plane<T> {
        let buf = vec![T::cast_from(128u8); width * height];
        let mut p = Plane::from_slice(&buf, width);
        p.cfg.xdec = xdec; p.cfg.ydec = ydec;
        p
    }

    fn any_meta(p: u8) -> (MC, CP, TC, u8, u8, u8) {
        let in_m: u8 = kani::any(); let in_t: u8 = kani::any();
        let (m, t) = (in_m, in_t);
        kani::assume(m < 15 && t < 19);
        let (mc, cp, tc) = (MC_ALL[m as usize], CP_ALL[p as usize], TC_ALL[t as usize]);
        kani::assume(mc != MC::Unspecified && cp != CP::Unspecified && tc != TC::Unspecified);
        (mc, cp, tc, m, p, t)
    }
    fn std_mc(m: MC) -> bool { matches!(m, MC::BT709 | MC::BT470M | MC::BT470BG | MC::ST170M | MC::ST240M | MC::BT2020NonConstantLuminance | MC::YCgCo) }
    fn sup_tc(t: TC) -> bool { matches!(t, TC::BT1886 | TC::ST170M | TC::ST240M | TC::BT2020Ten | TC::BT2020Twelve | TC::BT470M | TC::BT470BG
        | TC::SRGB | TC::XVYCC | TC::Logarithmic100 | TC::Logarithmic316 | TC::PerceptualQuantizer | TC::HybridLogGamma | TC::Linear) }
    fn sup_cp(p: CP) -> bool { matches!(p, CP::BT709 | CP::BT470M | CP::BT470BG | CP::ST170M | CP::ST240M | CP::Film | CP::BT2020 | CP::ST428
        | CP::P3DCI | CP::P3Display | CP::Tech3213) }
    /// the error names a field whose value really is outside the always-supported sets
    fn names_offender(e: E, mc: MC, cp: CP, tc: TC, uses_mc: bool, uses_cp: bool, uses_tc: bool) -> bool {
        match e {
            E::UnsupportedMatrixCoefficients => uses_mc && !std_mc(mc),
            // matrices derived from the primaries have no chromaticities for ST 428 / reserved values
            E::UnsupportedColorPrimaries => (uses_cp && !sup_cp(cp)) || (uses_mc && !std_mc(mc) && (cp == CP::ST428 || !sup_cp(cp))),
            E::UnsupportedTransferCharacteristic => uses_tc && !sup_tc(tc),
            _ => false,
        }
    }
    fn cfg(mc: MC, cp: CP, tc: TC) -> YuvConfig {
        YuvConfig { bit_depth: 8, subsampling_x: 0, subsampling_y: 0, full_range: false, matrix_coefficients: mc,
            transfer_characteristics: tc, color_primaries: cp }
    }
    fn yuv1(c: YuvConfig, y: u8, u: u8, v: u8) -> Yuv<u8> {
        Yuv::new(Frame { planes: [Plane::from_slice(&[y], 1), Plane::from_slice(&[u], 1), Plane::from_slice(&[v], 1)] }, c).unwrap()
    }

'''

BODY = r'''
    // ---- YUV <-> RGB (single stage: matrix only)
    #[kani::proof]
    #[kani::unwind(6)]
    #[kani::stub(v_frame::plane::Plane::new, stub_plane_new)]
    #[kani::stub(yuvxyb_math::matrix::Matrix::mul_arr, yuvxyb_math::matrix::verif_stub_mul_arr)]
    #[kani::stub(yuvxyb_math::matrix::Matrix::invert, yuvxyb_math::matrix::verif_stub_invert)]
    fn k_c14_yuv_rgb_p@P@() {
        let in_p: u8 = @P@; let (mc, cp, tc, in_m, _, in_t) = any_meta(in_p);
        let in_y: u8 = kani::any(); let in_u: u8 = kani::any(); let in_v: u8 = kani::any();
        let c = cfg(mc, cp, tc);
        let dec = Rgb::try_from(&yuv1(c, in_y, in_u, in_v));
        let rgb = Rgb::new(vec![[0.25, 0.5, 0.75]], 1, 1, tc, cp).unwrap();
        let enc = Yuv::<u8>::try_from((&rgb, c));
        kani::cover!(dec.is_ok(), "decode succeeds");
        kani::cover!(dec.is_err(), "decode fails");
        assert!(dec.is_ok() == enc.is_ok(), "YUV->RGB succeeds exactly when RGB->YUV does");
        if std_mc(mc) { assert!(dec.is_ok(), "standard matrix always succeeds"); }
        if let (Err(a), Err(b)) = (&dec, &enc) {
            assert!(*a == *b, "YUV<->RGB fail with the same error");
            assert!(names_offender(*a, mc, cp, tc, true, false, false), "error names an offending field");
        }
    }

    // ---- with a standard matrix YUV<->RGB ignores transfer and primaries (decode and encode in separate queries)
    #[kani::proof]
    #[kani::unwind(6)]
    #[kani::stub(yuvxyb_math::matrix::Matrix::mul_arr, yuvxyb_math::matrix::verif_stub_mul_arr)]
    #[kani::stub(yuvxyb_math::matrix::Matrix::invert, yuvxyb_math::matrix::verif_stub_invert)]
    fn k_c14_yuv_rgb_ignores_tc_cp_dec_p@P@() {
        let in_p: u8 = @P@; let (mc, cp, tc, in_m, _, in_t) = any_meta(in_p);
        let in_p2: u8 = @P2@; let (_, cp2, tc2, _, _, in_t2) = any_meta(in_p2);
        kani::assume(std_mc(mc));
        let in_y: u8 = kani::any(); let in_u: u8 = kani::any(); let in_v: u8 = kani::any();
        let a = Rgb::try_from(&yuv1(cfg(mc, cp, tc), in_y, in_u, in_v)).unwrap();
        let b = Rgb::try_from(&yuv1(cfg(mc, cp2, tc2), in_y, in_u, in_v)).unwrap();
        for k in 0..3 { assert!(a.data()[0][k].to_bits() == b.data()[0][k].to_bits(), "decode does not depend on transfer/primaries"); }
        assert!(a.transfer() == tc && a.primaries() == cp, "decode labels the RGB with the YUV's transfer/primaries");
        kani::cover!(cp != cp2 && tc != tc2, "different metadata explored");
    }
    #[kani::proof]
    #[kani::unwind(6)]
    #[kani::stub(v_frame::plane::Plane::new, stub_plane_new)]
    #[kani::stub(yuvxyb_math::matrix::Matrix::mul_arr, yuvxyb_math::matrix::verif_stub_mul_arr)]
    #[kani::stub(yuvxyb_math::matrix::Matrix::invert, yuvxyb_math::matrix::verif_stub_invert)]
    fn k_c14_yuv_rgb_ignores_tc_cp_enc_p@P@() {
        let in_p: u8 = @P@; let (mc, cp, tc, in_m, _, in_t) = any_meta(in_p);
        let in_p2: u8 = @P2@; let (_, cp2, tc2, _, _, in_t2) = any_meta(in_p2);
        kani::assume(std_mc(mc));
        // fixed-point pixel (k/64): two copies of the quantisers on identical inputs are the expensive part
        let in_r: i8 = kani::any(); let in_g: i8 = kani::any(); let in_b: i8 = kani::any();
        let px = [(in_r as f32) * 0.015625, (in_g as f32) * 0.015625, (in_b as f32) * 0.015625];
        let r1 = Rgb::new(vec![px], 1, 1, tc, cp).unwrap();
        let r2 = Rgb::new(vec![px], 1, 1, tc2, cp2).unwrap();
        let e1 = Yuv::<u8>::try_from((&r1, cfg(mc, cp, tc))).unwrap();
        let e2 = Yuv::<u8>::try_from((&r2, cfg(mc, cp2, tc2))).unwrap();
        for k in 0..3 { assert!(e1.data()[k].p(0, 0) == e2.data()[k].p(0, 0), "encode does not depend on transfer/primaries"); }
        kani::cover!(cp != cp2 && tc != tc2, "different metadata explored");
    }

    // ---- gamma <-> linear
    #[kani::proof]
    #[kani::unwind(5)]
    #[kani::stub(yuvxyb_math::pow_exp::powf, stub_powf)]
    #[kani::stub(yuvxyb_math::pow_exp::expf, stub_expf)]
    fn k_c14_gamma_linear_p@P@() {
        let in_p: u8 = @P@; let (mc, cp, tc, in_m, _, in_t) = any_meta(in_p);
        // both fields offending at once is the recorded finding F7 (checked by the twin harness below)
        kani::assume(sup_cp(cp) || sup_tc(tc));
        let fwd = LinearRgb::try_from(Rgb::new(vec![[0.25, 0.5, 0.75]], 1, 1, tc, cp).unwrap());
        let rev = Rgb::try_from((LinearRgb::new(vec![[0.25, 0.5, 0.75]], 1, 1).unwrap(), tc, cp));
        kani::cover!(fwd.is_ok(), "succeeds");
        kani::cover!(fwd.is_err(), "fails");
        assert!(fwd.is_ok() == rev.is_ok(), "gamma->linear succeeds exactly when linear->gamma does");
        if sup_tc(tc) && sup_cp(cp) { assert!(fwd.is_ok(), "supported curve and primaries always succeed"); }
        if let (Err(a), Err(b)) = (&fwd, &rev) {
            assert!(*a == *b, "gamma<->linear fail with the same error");
            assert!(names_offender(*a, mc, cp, tc, false, true, true), "error names an offending field");
        }
        if let Ok(r) = &rev { assert!(r.transfer() == tc && r.primaries() == cp && r.width() == 1 && r.height() == 1, "labels as requested"); }
    }
    #[kani::proof]
    #[kani::unwind(5)]
    #[kani::stub(yuvxyb_math::pow_exp::powf, stub_powf)]
    #[kani::stub(yuvxyb_math::pow_exp::expf, stub_expf)]
    fn k_c14_gamma_linear_both_bad_p@P@() {
        let in_p: u8 = @P@; let (mc, cp, tc, in_m, _, in_t) = any_meta(in_p);
        kani::assume(!sup_cp(cp) && !sup_tc(tc));
        let fwd = LinearRgb::try_from(Rgb::new(vec![[0.25, 0.5, 0.75]], 1, 1, tc, cp).unwrap());
        let rev = Rgb::try_from((LinearRgb::new(vec![[0.25, 0.5, 0.75]], 1, 1).unwrap(), tc, cp));
        assert!(fwd.is_err() && rev.is_err(), "both directions fail");
        if let (Err(a), Err(b)) = (&fwd, &rev) {
            assert!(names_offender(*a, mc, cp, tc, false, true, true) && names_offender(*b, mc, cp, tc, false, true, true), "error names an offending field");
            assert!(*a == *b, "gamma<->linear fail with the same error");
        }
    }

    // ---- multi-stage: YUV <-> linear RGB and YUV <-> XYB.  Matrix and primaries concrete per instance, transfer symbolic over all
    // 18 values (a symbolic matrix on top of the symbolic transfer in two conversion chains exceeds 20 GB of CBMC memory)
    fn multi_p@P@<const XYB: bool>(in_p: u8, in_m: u8) {
        let (_, cp, tc, _, _, in_t) = any_meta(in_p);
        let mc = MC_ALL[in_m as usize];
        let c = cfg(mc, cp, tc);
        let y = yuv1(c, 100, 120, 140);
        let (a_ok, a_err, b_ok, b_err, b_cfg_ok);
        if XYB {
            let a = Xyb::try_from(&y);
            let b = Yuv::<u8>::try_from((Xyb::new(vec![[0.0, 0.5, 0.5]], 1, 1).unwrap(), c));
            a_ok = a.is_ok(); a_err = a.err();
            b_cfg_ok = match &b { Ok(o) => o.config() == c && o.width() == 1 && o.height() == 1, Err(_) => true };
            b_ok = b.is_ok(); b_err = b.err();
        } else {
            let a = LinearRgb::try_from(&y);
            let b = Yuv::<u8>::try_from((LinearRgb::new(vec![[0.25, 0.5, 0.75]], 1, 1).unwrap(), c));
            a_ok = a.is_ok(); a_err = a.err();
            b_cfg_ok = match &b { Ok(o) => o.config() == c && o.width() == 1 && o.height() == 1, Err(_) => true };
            b_ok = b.is_ok(); b_err = b.err();
        }
        kani::cover!(a_ok || !a_ok, "reached");
        assert!(a_ok == b_ok, "the conversion succeeds exactly when its reverse does");
        if std_mc(mc) && sup_tc(tc) && sup_cp(cp) { assert!(a_ok, "standard combination always succeeds"); }
        if let Some(e) = a_err { assert!(names_offender(e, mc, cp, tc, true, true, true), "error names an offending field"); }
        if let Some(e) = b_err { assert!(names_offender(e, mc, cp, tc, true, true, true), "error names an offending field"); }
        assert!(b_cfg_ok, "config and dimensions as requested");
    }
@MULTI@
'''



def replay(ctx, spec, f):
    ins = {k: int(v["bin"], 2) for k, v in (f.get("inputs") or {}).items()}
    import re as _re
    mm = _re.search(r"_p(\d+)", spec["name"])
    if mm:
        ins["in_p"] = int(mm.group(1))
    if "mi" in spec:
        ins["in_m"] = spec["mi"]
    if any(k not in ins for k in ("in_m", "in_p", "in_t")):
        return {"reproduced": None, "detail": "metadata indices not found in trace"}
    args = [spec["what"], ins["in_m"], ins["in_p"], ins["in_t"], ins.get("in_p2", ins["in_p"]), ins.get("in_t2", ins["in_t"])]
    return native.replay_native(ctx, "meta", args)


def plan(tier, seed):
    p = Plan()
    p.stubbing = True
    p.max_jobs = 10 if tier != "thorough" else 5
    p.prepends.append(("src/lib.rs", '#![recursion_limit = "1024"]'))
    import os
    here = os.path.dirname(__file__)
    p.modules.append(("yuvxyb-math/src/matrix.rs", open(os.path.join(here, "..", "harness", "math_stub.rs")).read()))
    p.modules.append(("yuvxyb-math/src/lib.rs", open(os.path.join(here, "..", "harness", "math_stub_lib.rs")).read()))
    thorough = tier == "thorough"
    cps = [0, 1, 3, 4, 5, 6, 7, 8, 9, 10, 11, 12, 13]           # every ColorPrimaries value except Unspecified
    txt = MOD
    hs = []
    fams = [("k_c14_yuv_rgb", "yuvrgb", "YUV<->RGB: Ok or Unsupported* naming an offending field, symmetric, same error, standard matrices always succeed", ["decode succeeds", "decode fails"]),
            ("k_c14_gamma_linear", "gamma", "gamma<->linear: contract, symmetry, same error (at most one offending field), labels", None),
            ("k_c14_gamma_linear_both_bad", "gamma", "gamma<->linear with both transfer and primaries unsupported (known finding F7 domain)", []),
            ("k_c14_yuv_rgb_ignores_tc_cp_dec", "ignore", "with a standard matrix YUV->RGB is bit-identical whatever transfer/primaries are (all code triples)", ["different metadata explored"]),
            ("k_c14_yuv_rgb_ignores_tc_cp_enc", "ignore", "with a standard matrix RGB->YUV is identical whatever transfer/primaries are (pixel on the k/64 grid)", ["different metadata explored"])]
    sup = {1, 4, 5, 6, 7, 8, 9, 10, 11, 12, 13}
    for cp in cps:
        cp2 = cps[(cps.index(cp) + 1 + seed) % len(cps)]
        if cp2 == cp:
            cp2 = cps[(cps.index(cp) + 1) % len(cps)]
        mcs_all = [0, 1, 3, 4, 5, 6, 7, 8, 9, 10, 11, 12, 13, 14]
        if thorough:
            mcs = mcs_all
        elif cp in (0, 3):
            # quick: the unsupported primaries (Reserved0, Reserved) x {standard, derived-from-primaries, Reserved} matrices.  Instances in which the
            # whole chain SUCCEEDS keep ~5000 CBMC properties alive at once and exhaust 32 GB in the SAT solver: thorough tier only, memory-capped;
            # the success side of the contract is decided per stage by k_c14_yuv_rgb_* and k_c14_gamma_linear_*
            mcs = [1, 0, 3]
        # (instances whose primaries need a real gamut conversion take ~25 min and ~25 GB each: thorough tier only)
        else:
            mcs = []
        stubs = ("    #[kani::proof]\n    #[kani::unwind(6)]\n    #[kani::stub(yuvxyb_math::pow_exp::powf, stub_powf)]\n    #[kani::stub(yuvxyb_math::pow_exp::expf, stub_expf)]\n"
                 "    #[kani::stub(yuvxyb_math::cbrtf::cbrtf, stub_cbrtf)]\n    #[kani::stub(v_frame::plane::Plane::new, stub_plane_new)]\n"
                 "    #[kani::stub(yuvxyb_math::matrix::Matrix::mul_arr, yuvxyb_math::matrix::verif_stub_mul_arr)]\n    #[kani::stub(yuvxyb_math::matrix::Matrix::invert, yuvxyb_math::matrix::verif_stub_invert)]\n"
                 "    #[kani::stub(crate::yuv_rgb::ycbcr_to_ypbpr, stub_decode_planes)]\n    #[kani::stub(crate::rgb_xyb::linear_rgb_to_xyb, stub_vec_identity)]\n    #[kani::stub(crate::rgb_xyb::xyb_to_linear_rgb, stub_vec_identity)]\n"
                 "    #[kani::stub(crate::yuv_rgb::transfer::image_log100_inverse_oetf, stub_image)]\n"
                 "    #[kani::stub(crate::yuv_rgb::transfer::image_log316_inverse_oetf, stub_image)]\n"
                 "    #[kani::stub(crate::yuv_rgb::transfer::image_rec_1886_eotf, stub_image)]\n"
                 "    #[kani::stub(crate::yuv_rgb::transfer::image_rec_470m_oetf, stub_image)]\n"
                 "    #[kani::stub(crate::yuv_rgb::transfer::image_rec_470bg_oetf, stub_image)]\n"
                 "    #[kani::stub(crate::yuv_rgb::transfer::image_xvycc_eotf, stub_image)]\n"
                 "    #[kani::stub(crate::yuv_rgb::transfer::image_srgb_eotf, stub_image)]\n"
                 "    #[kani::stub(crate::yuv_rgb::transfer::image_st_2084_inverse_oetf, stub_image)]\n"
                 "    #[kani::stub(crate::yuv_rgb::transfer::image_arib_b67_inverse_oetf, stub_image)]\n"
                 "    #[kani::stub(crate::yuv_rgb::transfer::image_log100_oetf, stub_image)]\n"
                 "    #[kani::stub(crate::yuv_rgb::transfer::image_log316_oetf, stub_image)]\n"
                 "    #[kani::stub(crate::yuv_rgb::transfer::image_rec_1886_inverse_eotf, stub_image)]\n"
                 "    #[kani::stub(crate::yuv_rgb::transfer::image_rec_470m_inverse_oetf, stub_image)]\n"
                 "    #[kani::stub(crate::yuv_rgb::transfer::image_rec_470bg_inverse_oetf, stub_image)]\n"
                 "    #[kani::stub(crate::yuv_rgb::transfer::image_xvycc_inverse_eotf, stub_image)]\n"
                 "    #[kani::stub(crate::yuv_rgb::transfer::image_srgb_inverse_eotf, stub_image)]\n"
                 "    #[kani::stub(crate::yuv_rgb::transfer::image_st_2084_oetf, stub_image)]\n"
                 "    #[kani::stub(crate::yuv_rgb::transfer::image_arib_b67_oetf, stub_image)]\n")
        multi = ""
        for m in dict.fromkeys(mcs):
            for fam, flag in (("linear", "false"), ("xyb", "true")):
                nm = "k_c14_yuv_%s_p%d_m%d" % (fam, cp, m)
                multi += stubs + "    fn %s() { multi_p%d::<%s>(%d, %d) }\n" % (nm, cp, flag, cp, m)
                hs.append(dict(name=nm, family="c14", obligation="YUV<->%s: symmetry, error names an offender, standard combinations succeed, config/dimensions as requested [primaries index %d, matrix index %d]" % ("linear RGB" if fam == "linear" else "XYB", cp, m),
                               timeout=1800, mem_gb=16, covers=["reached"], replay=replay, what="multi", mi=m,
                               sym="transfer symbolic over all 18 values; primaries index %d, matrix index %d (quick: Reserved0/Reserved primaries x {standard, derived, Reserved} matrices; thorough: all 13 x 14 (success-path instances may end inconclusive: solver memory))" % (cp, m)))
        txt += BODY.replace("@P@", str(cp)).replace("@P2@", str(cp2)).replace("@MULTI@", multi)
        for (fam, what, obl, covers) in fams:
            if fam == "k_c14_gamma_linear_both_bad" and cp in sup:
                continue   # vacuous: primaries supported
            if fam.startswith("k_c14_yuv_rgb_ignores_tc_cp") and not thorough and cp != 9:
                continue
            if fam == "k_c14_yuv_rgb" and not thorough and cp not in (0, 1, 3, 9, 10, cps[(seed + 5) % len(cps)], cps[(seed + 8) % len(cps)]):
                continue     # quick: Reserved0, BT.709, Reserved, BT.2020, ST 428 and two seeded primaries; thorough: all 13
            cv = covers
            if cv is None:
                cv = ["succeeds", "fails"] if cp in sup else ["fails"]
            hs.append(dict(name="%s_p%d" % (fam, cp), family="c14", obligation=obl + " [primaries index %d]" % cp, timeout=2400, mem_gb=20, covers=cv, replay=replay, what=what,
                           sym="matrix (14 values) and transfer (18 values) symbolic through exhaustive tables, primaries = value #%d of 13 (one instance per value, all 13 run); 1x1 images" % cp))
    txt += "}" + chr(10)
    p.modules.append(("src/lib.rs", txt))
    p.harnesses = hs
    p.functions = ["get_rgb_to_yuv_matrix / get_yuv_to_rgb_matrix / ncl_rgb_to_yuv_matrix* / get_yuv_constants* / get_primaries_xy (src/yuv_rgb/color.rs)",
                   "TransferFunction::to_linear / to_gamma dispatch (src/yuv_rgb/transfer.rs)", "transform_primaries, gamut_*_matrix, white_point_adaptation_matrix",
                   "all TryFrom impls between Yuv, Rgb, LinearRgb, Xyb (src/rgb.rs, linear_rgb.rs, xyb.rs, yuv.rs)"]
    p.bounds = ["all 3276 fully specified triples (symbolic), 1x1 images, 8-bit limited 4:4:4; Plane::new, Matrix::mul_arr and Matrix::invert replaced by pure stand-ins (only success/failure, errors and data-independence are observed)"]
    p.outside = ["Unspecified values (C15)", "bit depths / ranges other than 8-bit limited for this contract (the dispatch does not depend on them)"]
    p.assumptions = ["powf/expf/cbrtf replaced by pure stand-ins in the Ok/Err harnesses (-Z stubbing): only success/failure and error values are observed there",
                     "ln/log10 are over-approximated by Kani (any result): irrelevant for Ok/Err"]
    return p


MANIFEST = dict(
    technique="bounded model checking of the real dispatch code (Kani/CBMC) with matrix and transfer symbolic over every enum value, one instance per primaries value; data paths and math kernels stubbed",
    text="Single-stage pairs (YUV<->RGB, gamma<->linear): matrix (14 values) and transfer (18 values) symbolic, one harness instance per primaries value (quick: all 13 for gamma<->linear, 6 of 13 for YUV<->RGB; thorough: all) - "
         "success/error contract, symmetry, equality of errors, standard combinations succeed, independence of YUV<->RGB from transfer/primaries for symbolic data. "
         "Multi-stage pairs (YUV<->linear RGB, YUV<->XYB): transfer symbolic, matrix and primaries concrete per instance; the quick tier runs the error-path instances only, "
         "the success-path instances are in the thorough tier and may end inconclusive (SAT solver memory).",
    note="1x1 images, 8-bit limited 4:4:4; Plane::new, Matrix::mul_arr/invert, the image-level curve loops and powf/expf/cbrtf are pure stand-ins where only Ok/Err, errors, config and data-independence are observed. "
         "Known finding F7 (both transfer and primaries unsupported: the two directions report different errors) is checked in its own harness.",
)
