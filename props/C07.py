"""C07 - no safe call sequence reaches UB.
 1. geometry: symbolic frames -> Yuv::new -> ycbcr_to_ypbpr; Kani's pointer/ub checks on get_unchecked*
 2. rejection: frames whose chroma planes cannot cover luma are rejected (acceptance oracle)
 3. encode side: ypbpr_to_ycbcr writes in bounds
 4. unchecked float->int: every transfer curve (and the other float conversions) on all f32 bit patterns"""
from vlib.check import Plan
from vlib import native
from props import geom, total


def geom_replay(ctx, spec, f):
    ins = {k: int(v["bin"], 2) for k, v in (f.get("inputs") or {}).items()}
    g = spec["geom"]
    if g["kind"] == "accept":
        need = ["in_w", "in_h", "in_uw", "in_uh", "in_vw", "in_vh", "in_uxdec", "in_uydec", "in_vxdec", "in_vydec", "in_bd", "in_ssx", "in_ssy"]
        if any(n not in ins for n in need):
            return {"reproduced": None, "detail": "inputs not found in trace"}
        # origins are not recovered from the trace: replay with origin 0 in the same buffers (sizes are what matters)
        args = [g["T"], ins["in_bd"], ins["in_ssx"], ins["in_ssy"], ins.get("in_full", 0) & 1,
                g["lbw"], g["lbh"], ins["in_w"], ins["in_h"], 0, 0, 0, 0,
                g["cbw"], g["cbh"], ins["in_uw"], ins["in_uh"], 0, 0, ins["in_uxdec"], ins["in_uydec"],
                g["cbw"], g["cbh"], ins["in_vw"], ins["in_vh"], 0, 0, ins["in_vxdec"], ins["in_vydec"]]
        return native.replay_native(ctx, "geom", args)
    # decode instance: the solver's frame is a window inside small buffers; natively the same situation (planes whose strides and
    # paddings differ) is built with Plane::new and different chroma paddings, and decoded through the public API: an out-of-bounds
    # get_unchecked aborts in the dev profile, a wrong sample shows against the 1x1 decodes
    d = g.get("dec")
    if not d:
        return {"reproduced": None, "detail": "no decode geometry recorded"}
    w = max(4, d["w"]) if d["ssx"] < 2 else 8
    h = max(4, d["h"]) if d["ssy"] < 2 else 8
    return native.replay_native(ctx, "layout", ["dec", d["T"], w, h, d["ssx"], d["ssy"], 8 if d["T"] == "u8" else 10, 0])


def enc_replay_odd(ctx, spec, f):
    # natively the real Plane::new pads rows to 64 bytes: the overflow needs a width of 64k+1 (4:2:2) or an odd height
    w, h, sx, sy = {"3x1_ss10": (129, 1, 1, 0), "1x3_ss01": (1, 3, 0, 1), "3x3_ss11": (3, 3, 1, 1)}[spec["odd"].split("odd_dims_")[1]]
    r = native.replay_native(ctx, "oddenc", [w, h, sx, sy], abort_is_violation=False)
    return r


def plan(tier, seed):
    p = Plan()
    thorough = tier == "thorough"
    txt = geom.PRELUDE
    hs = []
    # 2. acceptance / rejection
    for T in ("u8",):
        n = "k_c07_accept_%s" % T
        txt += geom.accept_harness(T, 4, 2, 2, 2, n)
        hs.append(dict(name=n, family="geom-accept", timeout=900, mem_gb=12,
                       obligation="Yuv::new accepts a frame iff decimations match, luma dims are multiples of the subsampling and chroma planes have size (w>>ssx,h>>ssy): a frame whose chroma planes cannot cover luma is rejected",
                       sym="luma window 1..4 x 1..2 in a 4x2 buffer, two chroma windows 1..2 x 1..2 in 2x2 buffers (all independent), origins, xdec/ydec 0..2, subsampling 0..3, depth 8..16, range",
                       covers=["accepted", "rejected", "accepted 420", "chroma planes that cannot cover luma explored"],
                       replay=geom_replay, geom=dict(kind="accept", T=T, lbw=4, lbh=2, cbw=2, cbh=2)))
    # 1. decode index safety
    # (storage, ss_x, ss_y, luma w, h, extra stride of the U buffer, of the V buffer): chroma planes of different strides, both orders,
    # with at least two chroma rows where it matters (a stride mix-up only shows from the second row on)
    inst = [("u8", 0, 0, 2, 2, 1, 0), ("u8", 1, 0, 2, 2, 1, 0), ("u8", 1, 1, 2, 2, 0, 1), ("u8", 2, 0, 4, 1, 0, 1), ("u16", 1, 0, 2, 1, 1, 0)]
    if thorough:
        inst += [("u8", 0, 1, 2, 2, 0, 1), ("u16", 1, 1, 2, 2, 1, 0), ("u8", 1, 1, 2, 4, 1, 0),
                 ("u8", 2, 2, 4, 4, 0, 1), ("u8", 1, 1, 4, 2, 1, 0), ("u8", 0, 0, 3, 3, 0, 1), ("u16", 0, 0, 2, 2, 1, 0), ("u16", 2, 0, 4, 2, 0, 1),
                 ("u16", 0, 1, 1, 2, 1, 0), ("u8", 1, 0, 4, 3, 1, 0)]
    for (T, sx, sy, w, h, ue, ve) in inst:
        n = "k_c07_dec_%s_ss%d%d_%dx%d" % (T, sx, sy, w, h)
        # U and V planes get different strides; which one is wider alternates (a V stride smaller than U's is what exposes a shared-stride bug as an out-of-bounds read)
        txt += geom.decode_harness(T, sx, sy, w, h, n, 8 if T == "u8" else 10, symbolic_content=(T == "u16"), pointwise=False, ue=ue, ve=ve)
        hs.append(dict(name=n, family="geom-decode", timeout=1500 if thorough else 900, mem_gb=14,
                       obligation="every accepted frame decodes with all get_unchecked accesses inside the plane buffers",
                       sym="luma %dx%d at a symbolic origin in a %dx%d buffer; both chroma windows (size, origin) symbolic in their buffers, U and V buffers of different strides; subsampling (%d,%d); %s%s" % (
                           w, h, w + 1, h + 1, sx, sy, T, ", symbolic samples" if T == "u16" else ", samples concrete (addresses do not depend on them)"),
                       covers=["accepted", "decoded"], unwind_rules=geom.decode_rules(w, h), replay=geom_replay,
                       geom=dict(kind="decode", dec=dict(T=T, w=w, h=h, ssx=sx, ssy=sy))))
    txt += geom.EPILOGUE
    p.modules.append(("src/yuv_rgb.rs", txt))
    # 3. encode side: no out-of-bounds write, also for dimensions the conversion rejects by panicking (F9 was found here)
    from props import C11 as _c11
    p.stubbing = True
    p.modules.append(("src/yuv_rgb.rs", _c11.ENC_PRELUDE + _c11.ODD.replace("k_c11_enc_odd_dims", "k_c07_enc_odd_dims") + "}\n"))
    for n in ("k_c07_enc_odd_dims_3x1_ss10", "k_c07_enc_odd_dims_1x3_ss01", "k_c07_enc_odd_dims_3x3_ss11"):
        hs.append(dict(name=n, family="encode-ub", timeout=1200, mem_gb=16, covers=[], replay=enc_replay_odd, odd=n,
                       only_classes=["pointer_dereference", "safety_check", "assume", "arithmetic_overflow", "precondition_instance", "array_bounds"],
                       obligation="RGB->YUV for dimensions that are not a multiple of the subsampling: whatever the call does (it panics: finding F6 under C11), no plane write may leave its buffer",
                       sym="concrete odd dimensions 3x1 / 1x3 / 3x3 with subsampling (1,0) / (0,1) / (1,1); output planes are unpadded stand-ins for Plane::new, so one sample past the row is outside the buffer"))
    # 4. unchecked float->int, all bit patterns
    t = total.PRELUDE
    for idx in total.TC_SUP:
        for tl in (True, False):
            n, code = total.transfer(idx, tl, finite_clause=False)
            n2 = n.replace("k_tot_", "k_c07_")
            t += code.replace(n, n2)
            hs.append(dict(name=n2, family="float-total", timeout=600, mem_gb=8,
                           obligation="%s %s: no NaN/inf/out-of-range value reaches to_int_unchecked, no panic" % (total.TC_NAMES[idx], "to_linear" if tl else "to_gamma"),
                           sym="one pixel component over all 2^32 f32 bit patterns (others constant), public API on a 1-pixel image",
                           covers=["NaN pixel explored", "+inf pixel explored", "huge negative pixel explored", "conversion succeeded"],
                           replay=total.replay_conv("conv"), pre_args=["tr", "lin" if tl else "gam", idx], args=["in_x"]))
    n, code = total.transfer_2px()
    n2 = n.replace("k_tot_", "k_c07_")
    t += code.replace(n, n2)
    hs.append(dict(name=n2, family="float-total", timeout=600, mem_gb=8,
                   obligation="from_raw_parts_mut flattening of a 2-pixel image stays inside the allocation",
                   sym="two components over all bit patterns, 2x1 image", covers=["special values explored"],
                   replay=total.replay_conv("conv"), pre_args=["tr2px"], args=["in_a", "in_b"]))
    t += total.EPILOGUE
    p.modules.append(("src/lib.rs", t))
    p.harnesses = hs
    p.functions = ["Yuv::new (src/yuv.rs:99)", "ycbcr_to_ypbpr (src/yuv_rgb.rs:21) incl. its 3 get_unchecked + get_unchecked_mut",
                   "to_f32_luma/to_f32_chroma, get_scale_offset (src/yuv_rgb.rs)", "TransferFunction::to_linear/to_gamma and all 18 scalar curves, image_transfer_fn! from_raw_parts_mut (src/yuv_rgb/transfer.rs)",
                   "yuvxyb_math::powf/expf/exp2 incl. to_int_unchecked (yuvxyb-math/src/pow_exp.rs:32) - the only unchecked float->int site of the workspace"]
    p.bounds = ["geometry: luma windows <= %s, buffers one sample larger than the window in each direction (so stride > width and padding exist), chroma windows any size inside their buffers, shifts <= 2; loops of ycbcr_to_ypbpr unwound to their exact trip count via --unwindset, all other loops to the harness bound with unwinding assertions on" % ("4x4" if thorough else "4x1 / 2x2"),
                "float clause: all 2^32 bit patterns per component, every supported curve, both directions"]
    p.outside = ["planes larger than the stated windows and 64-byte stride alignment of Plane::new (from_slice buffers are used instead)",
                 "frames whose public PlaneConfig violates v_frame's own representation invariant (width beyond stride etc.)",
                 "encode side (ypbpr_to_ycbcr) index safety on well-formed dimensions is decided by C11's encode harnesses (pointer checks on the same code) and C13"]
    p.assumptions = ["representation invariant of v_frame::Plane: xorigin+width <= stride, yorigin+height <= alloc_height, len == stride*alloc_height",
                     "Kani's pointer_dereference / 'Rust intrinsic assumption' (ub_checks) / float_to_int_unchecked checks stand for UB"]
    return p


MANIFEST = dict(
    technique="bounded model checking of the real code (Kani/CBMC): symbolic frame geometry as pre-state, all f32 bit patterns for float clause",
    text="Index safety is decided for every frame geometry within small stated bounds (symbolic windows, origins, independent chroma planes, subsampling shifts) "
         "by CBMC's pointer checks on the real get_unchecked sites after the real Yuv::new; the rejection clause by an acceptance oracle over fully symbolic geometry; "
         "the unchecked float->int clause for all 2^32 bit patterns of every supported transfer curve in both directions and for XYB.",
    note="Bounded geometry (windows up to 4x4), non-FMA build, Plane::from_slice buffers instead of 64-byte aligned Plane::new allocations; frames violating v_frame's own plane invariant are outside.",
)
