"""C02 - RGB->YUV encoding rounds to the nearest code of the H.273 quantisation."""
import os
from vlib.check import Plan
from vlib import native
from props import yuvfam as Y
from props.C01 import select_cfgs, w_instances


def add_q(txt, hs):
    for (T, bd, full) in Y.CFGS:
        n, code = Y.q_lemma(T, bd, full)
        txt += code
        hs.append(dict(name=n, family="Q", timeout=900, mem_gb=8, rkind="q", cfg=(T, bd, full), replay=Y.replay_codes,
                       obligation="Q-lemma %s %d-bit %s: from_f32_luma/from_f32_chroma within 0.5+%.1e*2^n codes of clamp(S*v+O) with the H.273 scale/offset" % (T, bd, "full" if full else "limited", float(Y.ETA_Q)),
                       sym="v: every f32 in [%.1f, %.1f]" % (float(Y.QBOX[0]), float(Y.QBOX[1])), covers=["maximum code reachable", "mid-range code reachable"]))
    return txt


def add_k(txt, hs, consts):
    for (n, code, mc) in Y.k_lemma(consts):
        txt += code
        hs.append(dict(name=n, family="K", timeout=600, mem_gb=8, replay=None,
                       obligation="K-lemma %s: forward and inverse matrices built by the real code equal the extracted f32 constants used by the glue" % Y.MC_NAME[mc],
                       sym="none (concrete symbolic execution)", covers=[]))
    return txt


def add_we(txt, hs, cfgs):
    for (T, bd, full, mi) in cfgs:
        n, code = Y.w_encode(T, bd, full, mi)
        txt += code
        hs.append(dict(name=n, family="W", timeout=2400, mem_gb=14, rkind="we", cfg=(T, bd, full), mi=mi, replay=Y.replay_codes,
                       obligation="W-lemma %s %d-bit %s %s: Yuv::try_from((&Rgb,cfg)) on a 1x1 image == quantisers applied to M*pixel (dot product m0*p0+(m1*p1+m2*p2) in f32), bit for bit; config and dimensions as requested" % (T, bd, "full" if full else "limited", Y.MC_NAME[Y.MC_STD[mi]]),
                       sym="pixel: all 2^96 f32 bit patterns", covers=["in-gamut pixel explored"]))
    return txt


def plan(tier, seed):
    p = Plan()
    p.native = True
    p.stubbing = True
    p.modules.append(("yuvxyb-math/src/matrix.rs", open(os.path.join(os.path.dirname(__file__), "..", "harness", "math_stub.rs")).read()))
    p.modules.append(("yuvxyb-math/src/lib.rs", open(os.path.join(os.path.dirname(__file__), "..", "harness", "math_stub_lib.rs")).read()))
    wcfgs = w_instances(tier, seed, light=True)

    def late(ctx, plan):
        consts = native.consts(ctx)
        hs = []
        txt = Y.PRELUDE
        txt = add_q(txt, hs)
        txt = add_k(txt, hs, consts)
        txt = add_we(txt, hs, wcfgs)
        for row in (range(3) if tier == "thorough" else []):   # quick tier: the S-lemma (5-8 min per row) is run by C01's quick check and by this check's thorough tier
            n, code = Y.s_lemma(row)
            txt += code
            hs.append(dict(name=n, family="S", timeout=1500, mem_gb=10, replay=None,
                           obligation="S-lemma row %d: the real Matrix::mul_arr is bit-identical to the straight-line f32 expression m0*p0 + (m1*p1 + m2*p2) (3 products, 2 sums; what the standard-model bound in the glue is about)" % row,
                           sym="vector: every f32 in [-2,2]^3; the row's 3 coefficients on the fixed-point grid k/64, |k|<=128 (full-width coefficients make SAT prove the equivalence of two 24x24 multiplier circuits: >1500 s); other rows generic constants",
                           covers=["non-trivial coefficients explored"]))
        txt += Y.EPILOGUE
        plan.modules.append(("src/yuv_rgb.rs", txt))
        plan.harnesses = hs

    def g(ctx):
        consts = native.consts(ctx)
        out = []
        for (T, bd, full) in Y.CFGS:
            r = ctx.results.get("k_yr_q_" + Y.cname(T, bd, full))
            if r is None or r.status != "pass" or T == "u8":
                continue
            for mc in Y.MC_STD:
                for q in Y.glue_c02(consts, mc, bd, full):
                    res = q.run(cross=(bd in (8, 16)))
                    if res["status"] == "sat":
                        res["replay"] = Y.replay_glue(ctx, q, res, "c02", mc, bd, full)
                    out.append(res)
        return out
    p.late = late
    p.glue = [g]
    p.functions = ["get_rgb_to_yuv_matrix, ncl_rgb_to_yuv_matrix*, get_yuv_constants, rgb_to_yuv (src/yuv_rgb/color.rs)", "Matrix::mul_arr (yuvxyb-math/src/matrix.rs)",
                   "get_scale_offset::<false>, from_f32_luma, from_f32_chroma, ypbpr_to_ycbcr (src/yuv_rgb.rs)", "Yuv::try_from((&Rgb, YuvConfig)), Yuv::new (src/yuv.rs)"]
    p.bounds = ["Q-lemma: every f32 in [-1.3,2.3] at every depth 8..16, both ranges, both storages", "W-lemma: every f32 pixel (all bit patterns) on 1x1 images for %d of the 140 (storage, depth, range, matrix) instances%s" % (len(wcfgs), "" if tier == "thorough" else " (quick: every matrix once)"),
                "glue: all 126 configurations x 3 planes, rgb real in [-0.5,1.5]^3"]
    p.outside = ["subsampled output layout (C11)", "FMA build"]
    p.assumptions = ["W-lemmas replace Matrix::mul_arr on both sides by one pure bit-mixing stand-in (they decide the wiring: which matrix, which inputs, in which order); that the real mul_arr is the 5-operation f32 expression is the S-lemma, proved for coefficient rows on the k/64 grid and every vector - mul_arr has no data-dependent control flow, so the same operation DAG is executed for full-width coefficients (argument, not a solver result)",
                     "IEEE-754 standard model for the dot product (see C01)", "H.273 constants transcribed in props/yuvfam.py"]
    p.trusted += ["z3 4.8.12 (QF_LRA) cross-checked with cvc5 1.0"]
    return p


MANIFEST = dict(
    z3=True,
    technique="Kani/CBMC bounded model checking of the real quantiser kernels (every f32 in the box) and of the public encode on 1x1 images (all bit patterns) + z3 linear-real-arithmetic glue over the extracted f32 matrices",
    text="The quantiser kernels are proved within 0.5+4e-7*2^n codes of the H.273 quantisation for every f32 input at every depth/range/storage; the public encode is proved bit-identical to matrix row . pixel followed by those quantisers for every float pixel and matrix; "
         "z3 composes these with the exact f32 coefficients into |code - clamp(ideal)| <= 0.5+1e-6*2^n for all real rgb in [-0.5,1.5]^3 in all 126 configurations.",
    note="Trusted: IEEE standard model for the dot product; constants transcription; Kani/CBMC/z3. 1x1 images. Non-FMA build.",
)
