"""C16 - the neutral axis and the black/white anchors survive every stage."""
import random
from vlib.check import Plan
from vlib import native
from props import yuvfam as Y
from props import total

YUV = r'''
    #[kani::proof]
    #[kani::unwind(5)]
    fn %(name)s() {
        let in_y: %(T)s = kani::any();
        %(assume)s
        let c = cfg(%(bd)d, %(full)s, MC_STD[%(mi)d]);
        let mid: %(T)s = %(mid)d;
        let yuv = %(ctor)s(Frame { planes: [Plane::from_slice(&[in_y], 1), Plane::from_slice(&[mid], 1), Plane::from_slice(&[mid], 1)] }, c)%(unwrap)s;
        let o = crate::Rgb::try_from(&yuv).unwrap().data()[0];
        let mx = o[0].max(o[1]).max(o[2]);
        let mn = o[0].min(o[1]).min(o[2]);
        assert!(mx - mn <= 5.0e-7, "neutral chroma decodes to R=G=B (spread <= 5e-7)");
        if u16::cast_from(in_y) == %(black)d { assert!(o[0] == 0.0 && o[1] == 0.0 && o[2] == 0.0, "nominal black decodes to exactly 0"); }
        if u16::cast_from(in_y) == %(white)d { assert!((o[0] - 1.0).abs() <= 1.0e-6 && (o[1] - 1.0).abs() <= 1.0e-6 && (o[2] - 1.0).abs() <= 1.0e-6, "nominal white decodes to 1 within 1e-6"); }
        kani::cover!(u16::cast_from(in_y) == %(white)d, "white explored");
        kani::cover!(mx > 0.4 && mx < 0.6, "mid grey explored");
    }
'''

FLOATS = r'''
#[cfg(kani)]
#[allow(dead_code, unused_imports, clippy::all, clippy::pedantic, clippy::nursery)]
mod verif_c16 {
    use crate::verif_common::*;
    use crate::*;
    fn lin1(t: TC, x: f32) -> f32 { LinearRgb::try_from(Rgb::new(vec![[x, x, x]], 1, 1, t, CP::BT709).unwrap()).unwrap().data()[0][1] }
    fn gam1(t: TC, x: f32) -> f32 { Rgb::try_from((LinearRgb::new(vec![[x, x, x]], 1, 1).unwrap(), t, CP::BT709)).unwrap().data()[0][1] }

    // concrete symbolic execution of the real curves at the two anchors (powf/expf are the real fast kernels)
    #[kani::proof]
    #[kani::unwind(5)]
    fn k_c16_curve_anchors() {
        let curves = [TC::BT1886, TC::ST170M, TC::ST240M, TC::BT2020Ten, TC::BT2020Twelve, TC::BT470M, TC::BT470BG, TC::SRGB, TC::XVYCC,
            TC::PerceptualQuantizer, TC::HybridLogGamma, TC::Linear];
        let in_i: usize = kani::any();
        kani::assume(in_i < 12);
        let t = curves[in_i];
        assert!(lin1(t, 0.0).abs() <= 1.0e-6, "to_linear(0) = 0 within 1e-6");
        assert!(gam1(t, 0.0).abs() <= 1.0e-6, "to_gamma(0) = 0 within 1e-6");
        assert!((lin1(t, 1.0) - 1.0).abs() < 2.5e-4, "to_linear(1) = 1 within the C03 budget");
        if t != TC::HybridLogGamma {   // HLG to_gamma(1) goes through ln (over-approximated by Kani)
            let tol = if t == TC::PerceptualQuantizer { 5.7e-4 } else { 2.5e-4 };
            assert!((gam1(t, 1.0) - 1.0).abs() < tol, "to_gamma(1) = 1 within the C03 budget");
        }
        kani::cover!(t == TC::PerceptualQuantizer, "PQ explored");
        kani::cover!(t == TC::SRGB, "sRGB explored");
    }

    #[kani::proof]
    #[kani::unwind(5)]
    fn k_c16_hsl_grey() {
        let in_g: f32 = kani::any();
        kani::assume(in_g >= 0.0 && in_g <= 1.0);
        let o = Hsl::from(LinearRgb::new(vec![[in_g, in_g, in_g]], 1, 1).unwrap()).data()[0];
        assert!(o[0] == 0.0 && o[1] == 0.0 && o[2] == in_g, "grey has hue 0, saturation 0, L = grey level");
    }

    #[kani::proof]
    #[kani::unwind(5)]
    fn k_c16_xyb_black() {
        let o = Xyb::from(LinearRgb::new(vec![[0.0, 0.0, 0.0]], 1, 1).unwrap()).data()[0];
        assert!(o[0].abs() <= 1.0e-6 && o[1].abs() <= 1.0e-6 && o[2].abs() <= 1.0e-6, "black maps to XYB (0,0,0) within 1e-6");
    }
    #[kani::proof]
    #[kani::unwind(5)]
    fn k_c16_xyb_grey_grid() {
        let in_k: u8 = kani::any();
        kani::assume(in_k <= %(gmax)d);
        let g = (in_k as f32) / %(gmax)d.0;
        let o = Xyb::from(LinearRgb::new(vec![[g, g, g]], 1, 1).unwrap()).data()[0];
        assert!(o[0].abs() <= 1.0e-6, "grey: |X| <= 1e-6");
        assert!((o[1] - o[2]).abs() <= 1.0e-6, "grey: |Y-B| <= 1e-6");
        kani::cover!(in_k == %(gmax)d, "white explored");
    }
%(prim)s
}
'''

PRIM = r'''
    #[kani::proof]
    #[kani::unwind(5)]
    fn %(name)s() {
        let in_g: f32 = kani::any();
        kani::assume(in_g >= 0.0 && in_g <= 1.0);
        let o = %(call)s;
        for k in 0..3 { assert!((o[k] - in_g).abs() <= 1.0e-5, "grey stays grey (each component within 1e-5 of the grey level)"); }
        kani::cover!(in_g > 0.9, "near-white explored");
    }
'''


def replay_yuv(ctx, spec, f):
    ins = {k: int(v["bin"], 2) for k, v in (f.get("inputs") or {}).items()}
    if "in_y" not in ins:
        return {"reproduced": None, "detail": "inputs not found"}
    T, bd, full, mi = spec["inst"]
    return native.replay_native(ctx, "neutral", ["yuv", T, bd, int(full), Y.MC_STD[mi], ins["in_y"]])


def replay_yuvx(ctx, spec, f):
    ins = {k: int(v["bin"], 2) for k, v in (f.get("inputs") or {}).items()}
    if "in_y" not in ins:
        return {"reproduced": None, "detail": "inputs not found"}
    T, bd, full, mcx, cpx = spec["inst"]
    return native.replay_native(ctx, "neutral", ["yuvx", T, bd, int(full), mcx, ins["in_y"], cpx])


def replay_f(ctx, spec, f):
    ins = {k: int(v["bin"], 2) for k, v in (f.get("inputs") or {}).items()}
    w = spec["what"]
    if w == "prim":
        if "in_g" not in ins:
            return {"reproduced": None, "detail": "inputs not found"}
        return native.replay_native(ctx, "neutral", ["prim", spec["dir"], spec["cp"], "%x" % ins["in_g"]])
    if w == "curve":
        if "in_i" not in ins:
            return {"reproduced": None, "detail": "inputs not found"}
        return native.replay_native(ctx, "neutral", ["curve", ins["in_i"]])
    if w == "hsl":
        if "in_g" not in ins:
            return {"reproduced": None, "detail": "inputs not found"}
        return native.replay_native(ctx, "hsl", ["%x" % ins["in_g"]] * 3)
    if w == "xyb":
        import struct
        g = (ins.get("in_k", 0)) / float(spec["gmax"])
        b = "%x" % struct.unpack("<I", struct.pack("<f", g))[0]
        return native.replay_native(ctx, "neutral", ["xyb", b])
    return {"reproduced": None, "detail": "no recipe"}


def plan(tier, seed):
    p = Plan()
    import os
    p.modules.append(("src/yuv.rs", open(os.path.join(os.path.dirname(__file__), "..", "harness", "yuv_unchecked.rs")).read()))
    thorough = tier == "thorough"
    hs = []
    # (a) YUV neutral axis: every luma code, chroma = 2^(n-1)
    if thorough:
        inst = [(T, bd, f, mi) for (T, bd, f) in Y.CFGS for mi in range(7)]
    else:
        cf = [("u8", 8, False), ("u16", 10, True), ("u16", 16, False), ("u8", 8, True), ("u16", 12, False), ("u16", 9, True), ("u16", 14, True)]
        rnd = random.Random(seed)
        rnd.shuffle(cf)
        inst = [cf[mi % len(cf)] + (mi,) for mi in range(7)]
    txt = Y.PRELUDE
    for (T, bd, full, mi) in inst:
        name = "k_c16_yuv_%s_m%d" % (Y.cname(T, bd, full), mi)
        k = 1 << (bd - 8)
        maxv = (1 << bd) - 1
        txt += YUV % dict(name=name, T=T, bd=bd, full="true" if full else "false", mi=mi, mid=1 << (bd - 1),
                          black=0 if full else 16 * k, white=maxv if full else 235 * k,
                          assume=("kani::assume(in_y <= %d);" % maxv) if (T == "u16" and bd < 16) else "",
                          ctor="crate::yuv::verif_yuv_unchecked" if (T == "u16" and bd < 16) else "Yuv::new", unwrap="" if (T == "u16" and bd < 16) else ".unwrap()")
        hs.append(dict(name=name, family="yuv-neutral", timeout=900, mem_gb=10, replay=replay_yuv, inst=(T, bd, full, mi),
                       obligation="%s %d-bit %s %s: chroma code 2^(n-1) decodes to R=G=B (spread<=5e-7), black code -> exactly 0, white code -> 1 within 1e-6" % (T, bd, "full" if full else "limited", Y.MC_NAME[Y.MC_STD[mi]]),
                       sym="luma code: every value in [0,2^%d)" % bd, covers=["white explored", "mid grey explored"]))
    # matrices derived from the primaries (Identity, BT.2020-CL, ST 2085, chromaticity-derived CL, ICtCp): "every matrix" of the property
    derived = [(0, 1), (10, 9), (11, 1), (13, 11), (14, 4)] if not thorough else [(m, c) for m in (0, 10, 11, 13, 14) for c in (1, 4, 9, 11, 13)]
    for j, (mcx, cpx) in enumerate(derived):
        (T, bd, full) = [("u8", 8, False), ("u16", 10, True), ("u16", 12, False)][j % 3]
        name = "k_c16_yuvx_%s_mc%d_cp%d" % (Y.cname(T, bd, full), mcx, cpx)
        k = 1 << (bd - 8)
        maxv = (1 << bd) - 1
        body = YUV % dict(name=name, T=T, bd=bd, full="true" if full else "false", mi=0, mid=1 << (bd - 1),
                          black=0 if full else 16 * k, white=maxv if full else 235 * k,
                          assume=("kani::assume(in_y <= %d);" % maxv) if (T == "u16" and bd < 16) else "",
                          ctor="crate::yuv::verif_yuv_unchecked" if (T == "u16" and bd < 16) else "Yuv::new", unwrap="" if (T == "u16" and bd < 16) else ".unwrap()")
        body = body.replace("let c = cfg(%d, %s, MC_STD[0]);" % (bd, "true" if full else "false"),
                            "let c = YuvConfig { color_primaries: CP_ALL[%d], ..cfg(%d, %s, MC_ALL[%d]) };" % (cpx, bd, "true" if full else "false", mcx))
        txt += body
        hs.append(dict(name=name, family="yuv-neutral", timeout=900, mem_gb=10, replay=replay_yuvx, inst=(T, bd, full, mcx, cpx),
                       obligation="%s %d-bit %s, matrix value #%d derived from primaries #%d: neutral chroma decodes to R=G=B (spread<=5e-7), black -> exactly 0, white -> 1 within 1e-6" % (T, bd, "full" if full else "limited", mcx, cpx),
                       sym="luma code: every value in [0,2^%d)" % bd, covers=["white explored", "mid grey explored"]))
    txt += Y.EPILOGUE
    p.modules.append(("src/yuv_rgb.rs", txt))
    # (b..e)
    gmax = 32 if thorough else 8
    prim = ""
    p.modules.append(("src/lib.rs", FLOATS % dict(prim=prim, gmax=gmax)))
    hs.append(dict(name="k_c16_curve_anchors", family="curves", timeout=1200, mem_gb=10, replay=replay_f, what="curve",
                   obligation="every non-log curve maps 0 to 0 within 1e-6 and 1 to 1 within its C03 budget, both directions (HLG to_gamma(1) excluded: ln)",
                   sym="curve index symbolic over the 12 non-log curves; inputs 0 and 1 concrete", covers=["PQ explored", "sRGB explored"]))
    hs.append(dict(name="k_c16_hsl_grey", family="hsl", timeout=600, mem_gb=8, replay=replay_f, what="hsl", obligation="grey -> HSL (0, 0, grey level) exactly", sym="grey level: every f32 in [0,1]", covers=[]))
    hs.append(dict(name="k_c16_xyb_black", family="xyb", timeout=600, mem_gb=8, replay=replay_f, what="xyb", gmax=gmax, obligation="black -> XYB (0,0,0) within 1e-6", sym="none (concrete)", covers=[]))
    hs.append(dict(name="k_c16_xyb_grey_grid", family="xyb", timeout=2400 if thorough else 1200, mem_gb=10, replay=replay_f, what="xyb", gmax=gmax,
                   obligation="grey -> XYB with |X| <= 1e-6 and |Y-B| <= 1e-6", sym="grey levels k/%d, k=0..%d (symbolic index; the real cbrtf costs seconds of SAT time per level)" % (gmax, gmax), covers=["white explored"]))
    # primaries: grey stays grey = K-lemma (real composite matrices == extracted constants) + z3 over their exact row sums
    from props import C06
    from vlib import glue as G
    from fractions import Fraction as F
    p.native = True
    others = [4, 5, 6, 7, 8, 9, 10, 11, 12, 13]
    pairs = [(o, 1) for o in others] + [(1, o) for o in others]
    static_hs = hs

    def late(ctx, plan):
        consts = native.consts(ctx)
        k = ""
        for (i, o) in pairs:
            n, code = C06.k_harness(i, o, consts["primaries"]["%d-%d" % (i, o)])
            n2 = n.replace("k_c06_k_", "k_c16_k_")
            k += code.replace(n, n2)
            static_hs.append(dict(name=n2, family="K", timeout=900, mem_gb=8, replay=None, covers=[],
                                  obligation="K-lemma %s->%s: composite primaries matrix built by the real code equals the extracted constants used by the grey glue" % (C06.CP_NAMES[i], C06.CP_NAMES[o]), sym="none (concrete symbolic execution)"))
        plan.modules.append(("src/yuv_rgb/color.rs", C06.KMOD.replace("verif_c06k", "verif_c16k") % k))
        plan.harnesses = static_hs

    def g(ctx):
        consts = native.consts(ctx)
        out = []
        for (i, o) in pairs:
            kr = ctx.results.get("k_c16_k_%d_%d" % (i, o))
            if kr is None or kr.status != "pass":
                continue
            T = C06.code_matrix(consts, i, o)
            for r in range(3):
                rho = G.rho_dot3(T[r], [1, 1, 1])
                q = G.Query("c16-grey-%s-%s-row%d" % (C06.CP_NAMES[i], C06.CP_NAMES[o], r),
                            "forall grey g in [0,1]: |(T_f32 * (g,g,g))_r + e - g| <= 1e-5 with T_f32 the real code's matrix (exact rationals) and e the standard-model rounding of the dot product")
                q.real("g", 0, 1)
                q.real("e", -rho, rho)
                q.add("(> %s %s)" % (G.absv("(- (+ (* %s g) e) g)" % G.rat(sum(T[r]))), G.rat(F(1, 10 ** 5))))
                res = q.run(cross=(r == 0))
                if res["status"] == "sat":
                    import struct
                    fb = "%x" % struct.unpack("<I", struct.pack("<f", 1.0))[0]
                    res["replay"] = native.replay_native(ctx, "neutral", ["prim", "in" if o == 1 else "out", i if o == 1 else o, fb], both_profiles=False)
                out.append(res)
        return out
    p.late = late
    p.glue = [g]
    p.harnesses = hs
    p.functions = ["ycbcr_to_ypbpr, to_f32_*, get_yuv_to_rgb_matrix, Matrix::mul_arr via Rgb::try_from(&Yuv)", "all transfer curves at 0 and 1 (real powf/expf)", "transform_primaries (22 conversions)", "linear_rgb_to_xyb incl. real cbrtf", "lrgb_to_hsl"]
    p.bounds = ["YUV: every luma code for %d of 140 (storage, depth, range, matrix) instances%s" % (len(inst), "" if thorough else " (quick: each matrix once at a seeded depth/range; thorough: all)"),
                "primaries: K-lemma for all 20 conversions + z3 over all real greys in [0,1] (the wiring of the conversion is C06's W-lemma)", "XYB grey: %d grey levels only" % (gmax + 1), "curves: exact inputs 0 and 1"]
    p.outside = ["XYB grey levels off the k/%d grid (2^20 levels in the property)" % gmax, "HLG to_gamma(1) (ln)", "log curves (excluded by the property)"]
    p.assumptions = ["non-FMA build"]
    return p


MANIFEST = dict(
    z3=True,
    technique="bounded model checking of the real conversions through the public API (Kani/CBMC): every luma code / every grey f32 symbolic; pure f32 assertions, no oracle",
    text="Neutral chroma decodes to R=G=B within 5e-7 with exact black and white within 1e-6 for every luma code; every primaries conversion keeps every grey grey (extracted matrices tied by K-lemmas, z3 over their exact row sums); HSL of grey is exact; curve anchors at 0 and 1 by symbolic execution of the real fast powf; "
         "XYB grey only on a small grid of grey levels.",
    note="XYB grey clause bounded to a 17/65-level grid (cbrtf is seconds of SAT time per point); quick tier covers each matrix at one depth/range.",
)
