"""Totality harness family (C07 unchecked float->int clause, C13): every conversion on a
1-pixel image whose symbolic component ranges over ALL f32 bit patterns; the assertions are
Kani's own checks (float_to_int_unchecked precondition, overflow, unwrap/panic, pointer checks)."""
from vlib import native

TC_SUP = [1, 6, 7, 14, 15, 4, 5, 13, 11, 9, 10, 16, 18, 8]      # indices into TC_ALL (verif_common)
TC_NAMES = {1: "BT1886", 6: "ST170M", 7: "ST240M", 14: "BT2020Ten", 15: "BT2020Twelve", 4: "BT470M", 5: "BT470BG",
            13: "SRGB", 11: "XVYCC", 9: "Log100", 10: "Log316", 16: "PQ", 18: "HLG", 8: "Linear"}
CP_SUP = [1, 4, 5, 6, 7, 8, 9, 10, 11, 12, 13]
CP_NAMES = {1: "BT709", 4: "BT470M", 5: "BT470BG", 6: "ST170M", 7: "ST240M", 8: "Film", 9: "BT2020", 10: "ST428",
            11: "P3DCI", 12: "P3Display", 13: "Tech3213"}
# curves whose to_gamma goes through ln/log10 (over-approximated by Kani: no numeric claim possible)
LOGGY_GAMMA = {9, 10, 18}

PRELUDE = r'''
#[cfg(kani)]
#[allow(dead_code, unused_imports, clippy::all, clippy::pedantic, clippy::nursery)]
mod verif_total {
    use crate::verif_common::*;
    use crate::*;

    fn finite3(p: &[f32; 3]) -> bool { p[0].is_finite() && p[1].is_finite() && p[2].is_finite() }
    fn unit(x: f32) -> bool { x >= 0.0 && x <= 1.0 }
'''
EPILOGUE = "}\n"


def transfer(idx, to_linear, finite_clause):
    d = "lin" if to_linear else "gam"
    name = "k_tot_tr_%s_%d" % (d, idx)
    if to_linear:
        call = "LinearRgb::try_from(Rgb::new(vec![[in_x, 0.25, 1.0]], 1, 1, TC_ALL[%d], CP::BT709).unwrap()).map(|o| o.data()[0])" % idx
    else:
        call = "Rgb::try_from((LinearRgb::new(vec![[in_x, 0.25, 1.0]], 1, 1).unwrap(), TC_ALL[%d], CP::BT709)).map(|o| o.data()[0])" % idx
    fin = ""
    if finite_clause:
        fin = 'if unit(in_x) { assert!(finite3(&o), "finite input in [0,1] gives finite output"); }'
    return name, r'''
    #[kani::proof]
    #[kani::unwind(5)]
    fn %(name)s() {
        let in_x: f32 = kani::any();
        let r = %(call)s;
        kani::cover!(in_x.is_nan(), "NaN pixel explored");
        kani::cover!(in_x == f32::INFINITY, "+inf pixel explored");
        kani::cover!(in_x < -3.0e38, "huge negative pixel explored");
        match r { Ok(o) => { kani::cover!(true, "conversion succeeded"); %(fin)s } Err(_) => { assert!(false, "supported curve must succeed"); } }
    }
''' % dict(name=name, call=call, fin=fin)


def transfer_2px():
    """from_raw_parts_mut over a 2-pixel image (pointer checks on the flattened slice)."""
    return "k_tot_tr_2px", r'''
    #[kani::proof]
    #[kani::unwind(8)]
    fn k_tot_tr_2px() {
        let in_a: f32 = kani::any();
        let in_b: f32 = kani::any();
        let r = LinearRgb::try_from(Rgb::new(vec![[in_a, 0.5, 0.0], [1.0, 0.0, in_b]], 2, 1, TC::SRGB, CP::BT709).unwrap()).unwrap();
        assert!(r.data().len() == 2 && r.width() == 2 && r.height() == 1, "dimensions preserved");
        kani::cover!(in_a.is_nan() && in_b.is_infinite(), "special values explored");
    }
'''


def primaries(idx, to_709):
    name = "k_tot_pr_%s_%d" % ("in" if to_709 else "out", idx)
    if to_709:
        call = "LinearRgb::try_from(Rgb::new(vec![[in_r, in_g, in_b]], 1, 1, TC::Linear, CP_ALL[%d]).unwrap()).map(|o| o.data()[0])" % idx
    else:
        call = "Rgb::try_from((LinearRgb::new(vec![[in_r, in_g, in_b]], 1, 1).unwrap(), TC::Linear, CP_ALL[%d])).map(|o| o.data()[0])" % idx
    return name, r'''
    #[kani::proof]
    #[kani::unwind(5)]
    fn %(name)s() {
        let in_r: f32 = kani::any(); let in_g: f32 = kani::any(); let in_b: f32 = kani::any();
        let r = %(call)s;
        kani::cover!(in_r.is_nan() && in_g == f32::NEG_INFINITY, "special values explored");
        match r { Ok(o) => { if unit(in_r) && unit(in_g) && unit(in_b) { assert!(finite3(&o), "finite input in [0,1] gives finite output"); } }
                  Err(_) => { assert!(false, "supported primaries must succeed"); } }
    }
''' % dict(name=name, call=call)


def xyb(fwd):
    name = "k_tot_xyb_fwd" if fwd else "k_tot_xyb_back"
    if fwd:
        call = "Xyb::from(LinearRgb::new(vec![[in_r, in_g, in_b]], 1, 1).unwrap()).data()[0]"
    else:
        call = "LinearRgb::from(Xyb::new(vec![[in_r, in_g, in_b]], 1, 1).unwrap()).data()[0]"
    return name, r'''
    #[kani::proof]
    #[kani::unwind(5)]
    fn %(name)s() {
        let in_r: f32 = kani::any(); let in_g: f32 = kani::any(); let in_b: f32 = kani::any();
        let o = %(call)s;
        kani::cover!(in_r.is_nan() && in_b == f32::INFINITY, "special values explored");
        if unit(in_r) && unit(in_g) && unit(in_b) { assert!(finite3(&o), "finite input in [0,1] gives finite output"); }
    }
''' % dict(name=name, call=call)


def hsl(fwd):
    name = "k_tot_hsl_fwd" if fwd else "k_tot_hsl_back"
    if fwd:
        call = "Hsl::from(LinearRgb::new(vec![[in_r, in_g, in_b]], 1, 1).unwrap()).data()[0]"
        fin = 'if unit(in_r) && unit(in_g) && unit(in_b) { assert!(finite3(&o), "finite input in [0,1] gives finite output"); }'
    else:
        call = "LinearRgb::from(Hsl::new(vec![[in_r, in_g, in_b]], 1, 1).unwrap()).data()[0]"
        fin = "let _ = o;"   # float % is not modelled faithfully by this CBMC: no numeric claim
    return name, r'''
    #[kani::proof]
    #[kani::unwind(5)]
    fn %(name)s() {
        let in_r: f32 = kani::any(); let in_g: f32 = kani::any(); let in_b: f32 = kani::any();
        let o = %(call)s;
        kani::cover!(in_r.is_nan() && in_b == f32::INFINITY, "special values explored");
        %(fin)s
    }
''' % dict(name=name, call=call, fin=fin)


def encode(T, bd, full, mc_idx):
    """RGB -> YUV on a 1x1 image, any float pixel: no panic, codes <= 2^n-1 (so Yuv::new re-wraps)."""
    name = "k_tot_enc_%s_%d_%s_%d" % (T, bd, "full" if full else "lim", mc_idx)
    return name, r'''
    #[kani::proof]
    #[kani::unwind(66)]
    fn %(name)s() {
        let in_r: f32 = kani::any(); let in_g: f32 = kani::any(); let in_b: f32 = kani::any();
        let rgb = Rgb::new(vec![[in_r, in_g, in_b]], 1, 1, TC::BT1886, CP::BT709).unwrap();
        let c = YuvConfig { bit_depth: %(bd)d, subsampling_x: 0, subsampling_y: 0, full_range: %(full)s,
            matrix_coefficients: MC_ALL[%(mc)d], transfer_characteristics: TC::BT1886, color_primaries: CP::BT709 };
        let y = Yuv::<%(T)s>::try_from((&rgb, c));
        kani::cover!(in_r.is_nan() && in_g == f32::INFINITY && in_b < -1.0e38, "special values explored");
        match y {
            Ok(y) => {
                let maxv: u32 = (1u32 << %(bd)d) - 1;
                for p in 0..3 {
                    let v = u32::from(u16::cast_from(y.data()[p].p(0, 0)));
                    assert!(v <= maxv, "emitted code within [0, 2^n-1]");
                }
                assert!(y.width() == 1 && y.height() == 1 && y.config() == c, "dimensions and config as requested");
            }
            Err(_) => { assert!(false, "standard matrix must succeed"); }
        }
    }
''' % dict(name=name, T=T, bd=bd, full="true" if full else "false", mc=mc_idx)


def replay_conv(kind):
    """Replay recipe: run the same public conversion natively (dev profile: overflow/debug assertions on;
    release too).  A panic/abort reproduces a no-panic violation; UB in to_int_unchecked needs Miri."""
    def f(ctx, spec, fail):
        ins = fail.get("inputs") or {}
        names = spec.get("args", [])
        if any(n not in ins for n in names):
            return {"reproduced": None, "detail": "inputs not found in trace"}
        args = list(spec.get("pre_args", [])) + ["%x" % int(ins[n]["bin"], 2) for n in names]
        if fail["class"] == "arithmetic_overflow" and "to_int_unchecked" in (fail["function"] or ""):
            return native.replay_miri(ctx, kind, args)
        return native.replay_native(ctx, kind, args)
    return f
