"""YUV <-> RGB harness family and glue (C01, C02, C08, part of C16).

Decomposition (DESIGN section 4):
  A  normalisation kernels vs the H.273 formula, all codes            (Kani, f64 oracle, per depth/range/storage)
  Q  quantiser kernels vs the H.273 quantisation, all f32 in a box    (Kani, f64 oracle, per depth/range/storage)
  K  matrices the real code builds == extracted table, bit for bit    (Kani, concrete execution)
  W  public conversion on a 1x1 image == composition of those kernels around the straight-line
     dot product  m0*p0 + (m1*p1 + m2*p2)  evaluated in f32, bit for bit (Kani, symbolic data and matrix)
  G  z3 over exact rationals: kernels' contracts + real coefficients + IEEE standard model of the
     dot product  =>  the property's end-to-end tolerance, for all real values in the box.
"""
from fractions import Fraction as F

from vlib import glue, native
from vlib.glue import rat, absv, clamp, lin

MC_STD = [1, 4, 5, 6, 7, 9, 8]          # indices into MC_ALL of the 7 standard matrices (order of verif_common::MC_STD)
MC_NAME = {1: "BT709", 4: "BT470M", 5: "BT470BG", 6: "ST170M", 7: "ST240M", 9: "BT2020NCL", 8: "YCgCo"}
KRKB = {1: ("0.2126", "0.0722"), 4: ("0.30", "0.11"), 5: ("0.299", "0.114"), 6: ("0.299", "0.114"),
        7: ("0.212", "0.087"), 9: ("0.2627", "0.0593")}

EPS_A = F(4, 10 ** 7)            # A-lemma budget (normalised units)
ETA_Q = F(4, 10 ** 7)            # Q-lemma budget, times 2^n (code units)
QBOX = (F(-13, 10), F(23, 10))   # Q-lemma input box
TOL_C01 = F(3, 10 ** 6)
CFGS = [("u8", 8, False), ("u8", 8, True)] + [("u16", bd, f) for bd in range(8, 17) for f in (False, True)]


def cname(T, bd, full):
    return "%s_%d_%s" % (T, bd, "full" if full else "lim")


def h273_inverse(mc):
    """rows R,G,B over (Y, U, V) written from the standard"""
    if mc == 8:   # YCgCo: U = Cg, V = Co
        return [[F(1), F(-1), F(1)], [F(1), F(1), F(0)], [F(1), F(-1), F(-1)]]
    kr, kb = F(KRKB[mc][0]), F(KRKB[mc][1])
    kg = 1 - kr - kb
    return [[F(1), F(0), 2 * (1 - kr)],
            [F(1), -2 * kb * (1 - kb) / kg, -2 * kr * (1 - kr) / kg],
            [F(1), 2 * (1 - kb), F(0)]]


def h273_forward(mc):
    """rows Y', Cb(U), Cr(V) over (R, G, B)"""
    if mc == 8:
        return [[F(1, 4), F(1, 2), F(1, 4)], [F(-1, 4), F(1, 2), F(-1, 4)], [F(1, 2), F(0), F(-1, 2)]]
    kr, kb = F(KRKB[mc][0]), F(KRKB[mc][1])
    kg = 1 - kr - kb
    return [[kr, kg, kb],
            [-kr / (2 * (1 - kb)), -kg / (2 * (1 - kb)), (1 - kb) / (2 * (1 - kb))],
            [(1 - kr) / (2 * (1 - kr)), -kg / (2 * (1 - kr)), -kb / (2 * (1 - kr))]]


def quant_consts(bd, full, chroma):
    """H.273 quantisation: code = S*x + O"""
    k = 1 << (bd - 8)
    if full:
        return F((1 << bd) - 1), (F(1 << (bd - 1)) if chroma else F(0))
    return (F(224 * k), F(128 * k)) if chroma else (F(219 * k), F(16 * k))


PRELUDE = r'''
#[cfg(kani)]
#[allow(dead_code, unused_imports, clippy::all, clippy::pedantic, clippy::nursery)]
mod verif_yr {
    use super::*;
    use crate::verif_common::*;

    fn cfg(bd: u8, full: bool, mc: MC) -> YuvConfig {
        YuvConfig { bit_depth: bd, subsampling_x: 0, subsampling_y: 0, full_range: full, matrix_coefficients: mc,
            transfer_characteristics: TC::BT1886, color_primaries: CP::BT709 }
    }
    fn clampd(x: f64, lo: f64, hi: f64) -> f64 { if x < lo { lo } else if x > hi { hi } else { x } }
    /// unpadded stand-in for Plane::new in the encode wiring lemma (the real 64-byte aligned allocation is exercised by C13's encode harnesses)
    fn stub_plane_new<T: Pixel>(width: usize, height: usize, xdec: usize, ydec: usize, _xpad: usize, _ypad: usize) -> Plane<T> {
        let buf = vec![T::cast_from(128u8); width * height];
        let mut p = Plane::from_slice(&buf, width);
        p.cfg.xdec = xdec; p.cfg.ydec = ydec;
        p
    }
'''
EPILOGUE = "}\n"


def a_lemma(T, bd, full):
    name = "k_yr_a_" + cname(T, bd, full)
    k = 1 << (bd - 8)
    maxv = (1 << bd) - 1
    if full:
        yi = "code / %d.0" % maxv
        ci = "(code - %d.0) / %d.0" % (1 << (bd - 1), maxv)
        black, white = 0, maxv
    else:
        yi = "(code - %d.0) / %d.0" % (16 * k, 219 * k)
        ci = "(code - %d.0) / %d.0" % (128 * k, 224 * k)
        black, white = 16 * k, 235 * k
    assume = "kani::assume(in_c <= %d);" % maxv if (T == "u16" and bd < 16) else ""
    return name, r'''
    #[kani::proof]
    fn %(name)s() {
        let in_c: %(T)s = kani::any();
        %(assume)s
        let (ls, lo) = get_scale_offset::<true>(%(bd)d, %(full)s, false);
        let (cs, co) = get_scale_offset::<true>(%(bd)d, %(full)s, true);
        let y = to_f32_luma(in_c, ls, lo);
        let c = to_f32_chroma(in_c, cs, co);
        let code = u16::cast_from(in_c) as f64;
        let yi = clampd(%(yi)s, 0.0, 1.0);
        let ci = clampd(%(ci)s, -0.5, 0.5);
        assert!((y as f64 - yi).abs() <= %(eps)s, "luma normalisation within EPS_A of the H.273 formula");
        assert!((c as f64 - ci).abs() <= %(eps)s, "chroma normalisation within EPS_A of the H.273 formula");
        assert!(y >= 0.0 && y <= 1.0 && c >= -0.5 && c <= 0.5, "normalised values stay in their boxes");
        // anchors (C16)
        if u16::cast_from(in_c) == %(black)d { assert!(y == 0.0, "nominal black normalises to exactly 0"); }
        if u16::cast_from(in_c) == %(white)d { assert!((y as f64 - 1.0).abs() <= 2.0e-7, "nominal white normalises to 1 within 2e-7"); }
        if u16::cast_from(in_c) == %(mid)d { assert!(c == 0.0, "neutral chroma code normalises to exactly 0"); }
        kani::cover!(u16::cast_from(in_c) == %(white)d, "white code explored");
        kani::cover!(y > 0.3 && y < 0.7, "mid-range code explored");
    }
''' % dict(name=name, T=T, bd=bd, full="true" if full else "false", yi=yi, ci=ci, assume=assume,
           eps="%.3e" % float(EPS_A), black=black, white=white, mid=1 << (bd - 1))


def q_lemma(T, bd, full):
    name = "k_yr_q_" + cname(T, bd, full)
    sy, oy = quant_consts(bd, full, False)
    sc, oc = quant_consts(bd, full, True)
    maxv = (1 << bd) - 1
    eta = float(ETA_Q * (1 << bd))
    return name, r'''
    #[kani::proof]
    fn %(name)s() {
        let in_v: f32 = kani::any();
        kani::assume(in_v >= %(lo)s && in_v <= %(hi)s);
        let (ls, lo) = get_scale_offset::<false>(%(bd)d, %(full)s, false);
        let (cs, co) = get_scale_offset::<false>(%(bd)d, %(full)s, true);
        let y: %(T)s = from_f32_luma(in_v, ls, lo, %(bd)d);
        let c: %(T)s = from_f32_chroma(in_v, cs, co, %(bd)d, %(full)s);
        let v = in_v as f64;
        let yi = clampd(%(sy)d.0 * v + %(oy)d.0, 0.0, %(maxv)d.0);
        let ci = clampd(%(sc)d.0 * v + %(oc)d.0, 0.0, %(maxv)d.0);
        assert!((u16::cast_from(y) as f64 - yi).abs() <= 0.5 + %(eta)s, "luma code within 0.5+ETA_Q of the H.273 quantisation");
        assert!((u16::cast_from(c) as f64 - ci).abs() <= 0.5 + %(eta)s, "chroma code within 0.5+ETA_Q of the H.273 quantisation");
        kani::cover!(u16::cast_from(y) == %(maxv)d, "maximum code reachable");
        kani::cover!(u16::cast_from(y) > 20 && u16::cast_from(y) < 200, "mid-range code reachable");
    }
''' % dict(name=name, T=T, bd=bd, full="true" if full else "false", lo="%.1f" % float(QBOX[0]), hi="%.1f" % float(QBOX[1]),
           sy=int(sy), oy=int(oy), sc=int(sc), oc=int(oc), maxv=maxv, eta="%.6e" % eta)


def k_lemma(consts):
    """matrices built by symbolic execution of the real code == natively extracted table"""
    out = []
    for mc in MC_STD:
        inv = consts["yuv2rgb"][str(mc)]
        fwd = consts["rgb2yuv"][str(mc)]
        name = "k_yr_k_%d" % mc
        code = r'''
    #[kani::proof]
    fn %(name)s() {
        let c = cfg(8, false, MC_ALL[%(mc)d]);
        let inv = color::get_yuv_to_rgb_matrix(c).unwrap().values();
        let fwd = color::get_rgb_to_yuv_matrix(c).unwrap().values();
        let ti: [u32; 9] = %(inv)s;
        let tf: [u32; 9] = %(fwd)s;
        for i in 0..3 { for j in 0..3 {
            assert!(inv[i][j].to_bits() == ti[i * 3 + j], "inverse matrix entry equals the natively extracted constant");
            assert!(fwd[i][j].to_bits() == tf[i * 3 + j], "forward matrix entry equals the natively extracted constant");
        } }
        // the matrices do not depend on depth, range, transfer or primaries
        let c2 = YuvConfig { bit_depth: 12, full_range: true, transfer_characteristics: TC::PerceptualQuantizer, color_primaries: CP::BT2020, ..c };
        assert!(color::get_yuv_to_rgb_matrix(c2).unwrap() == color::get_yuv_to_rgb_matrix(c).unwrap(), "matrix depends on matrix_coefficients only");
    }
''' % dict(name=name, mc=mc, inv=str(inv), fwd=str(fwd))
        out.append((name, code, mc))
    return out


def w_decode(T, bd, full, mi):
    name = "k_yr_wd_%s_m%d" % (cname(T, bd, full), mi)
    maxv = (1 << bd) - 1
    assume = "kani::assume(in_y <= %d && in_u <= %d && in_v <= %d);" % (maxv, maxv, maxv) if (T == "u16" and bd < 16) else ""
    return name, r'''
    #[kani::proof]
    #[kani::unwind(5)]
    #[kani::stub(yuvxyb_math::matrix::Matrix::mul_arr, yuvxyb_math::matrix::verif_stub_mul_arr)]
    fn %(name)s() {
        let in_mi: u8 = %(mi)d;      // the matrix is a concrete parameter (one instance per matrix) so that its coefficients fold to constants
        let in_y: %(T)s = kani::any(); let in_u: %(T)s = kani::any(); let in_v: %(T)s = kani::any();
        %(assume)s
        let c = cfg(%(bd)d, %(full)s, MC_STD[in_mi as usize]);
        let yuv = %(ctor)s(Frame { planes: [Plane::from_slice(&[in_y], 1), Plane::from_slice(&[in_u], 1), Plane::from_slice(&[in_v], 1)] }, c)%(unwrap)s;
        let got = crate::Rgb::try_from(&yuv).unwrap();
        let (ls, lo) = get_scale_offset::<true>(%(bd)d, %(full)s, false);
        let (cs, co) = get_scale_offset::<true>(%(bd)d, %(full)s, true);
        let p = [to_f32_luma(in_y, ls, lo), to_f32_chroma(in_u, cs, co), to_f32_chroma(in_v, cs, co)];
        // Matrix::mul_arr is replaced on both sides by the same pure bit-mixing stand-in (its arithmetic is the S-lemma)
        let e = color::get_yuv_to_rgb_matrix(c).unwrap().mul_arr(p);
        for i in 0..3 {
            assert!(got.data()[0][i].to_bits() == e[i].to_bits(), "decoded pixel == mul_arr(get_yuv_to_rgb_matrix(cfg), [luma(Y), chroma(U), chroma(V)])");
        }
        assert!(got.data().len() == 1 && got.width() == 1 && got.height() == 1, "dimensions preserved");
        assert!(got.transfer() == TC::BT1886 && got.primaries() == CP::BT709, "labels copied");
        kani::cover!(got.data()[0][0] > 0.25 && got.data()[0][0] < 0.75, "mid-range output explored");
    }
''' % dict(name=name, T=T, bd=bd, full="true" if full else "false", assume=assume, mi=mi,
           ctor="crate::yuv::verif_yuv_unchecked" if (T == "u16" and bd < 16) else "Yuv::new", unwrap="" if (T == "u16" and bd < 16) else ".unwrap()")


def w_encode(T, bd, full, mi):
    name = "k_yr_we_%s_m%d" % (cname(T, bd, full), mi)
    return name, r'''
    #[kani::proof]
    #[kani::unwind(6)]
    #[kani::stub(yuvxyb_math::matrix::Matrix::mul_arr, yuvxyb_math::matrix::verif_stub_mul_arr)]
    #[kani::stub(v_frame::plane::Plane::new, stub_plane_new)]
    fn %(name)s() {
        let in_mi: u8 = %(mi)d;
        let in_r: f32 = kani::any(); let in_g: f32 = kani::any(); let in_b: f32 = kani::any();
        let c = cfg(%(bd)d, %(full)s, MC_STD[in_mi as usize]);
        let rgb = crate::Rgb::new(vec![[in_r, in_g, in_b]], 1, 1, TC::BT1886, CP::BT709).unwrap();
        let got = Yuv::<%(T)s>::try_from((&rgb, c)).unwrap();
        let (ls, lo) = get_scale_offset::<false>(%(bd)d, %(full)s, false);
        let (cs, co) = get_scale_offset::<false>(%(bd)d, %(full)s, true);
        let q = color::get_rgb_to_yuv_matrix(c).unwrap().mul_arr([in_r, in_g, in_b]);   // stand-in on both sides, see S-lemma
        let e0: %(T)s = from_f32_luma(q[0], ls, lo, %(bd)d);
        let e1: %(T)s = from_f32_chroma(q[1], cs, co, %(bd)d, %(full)s);
        let e2: %(T)s = from_f32_chroma(q[2], cs, co, %(bd)d, %(full)s);
        assert!(got.data()[0].p(0, 0) == e0, "Y plane == luma quantiser of mul_arr(get_rgb_to_yuv_matrix(cfg), pixel)[0]");
        assert!(got.data()[1].p(0, 0) == e1, "U plane == chroma quantiser of row 1");
        assert!(got.data()[2].p(0, 0) == e2, "V plane == chroma quantiser of row 2");
        assert!(got.config() == c, "output carries exactly the requested config");
        assert!(got.width() == 1 && got.height() == 1 && got.data()[1].cfg.width == 1 && got.data()[2].cfg.height == 1, "dimensions preserved");
        kani::cover!(in_r > 0.5 && in_r < 1.0 && in_g > 0.1 && in_g < 0.3, "in-gamut pixel explored");
    }
''' % dict(name=name, T=T, bd=bd, full="true" if full else "false", mi=mi)


def s_lemma(row):
    """the real Matrix::mul_arr is the straight-line f32 expression m0*p0 + (m1*p1 + m2*p2) (non-FMA build)"""
    name = "k_yr_s_row%d" % row
    rows = ["yuvxyb_math::RowVector::new(0.578125, -1.40625, 0.171875)", "yuvxyb_math::RowVector::new(-0.078125, 1.0, 1.921875)", "yuvxyb_math::RowVector::new(1.234375, 0.25, -0.609375)"]
    rows[row] = "yuvxyb_math::RowVector::new(a[0], a[1], a[2])"
    return name, r'''
    #[kani::proof]
    fn %(name)s() {
        let k0: i8 = kani::any(); let k1: i8 = kani::any(); let k2: i8 = kani::any();
        let a = [(k0 as f32) * 0.015625, (k1 as f32) * 0.015625, (k2 as f32) * 0.015625];
        let m = yuvxyb_math::Matrix::new(%(r0)s, %(r1)s, %(r2)s);
        let in_p0: f32 = kani::any(); let in_p1: f32 = kani::any(); let in_p2: f32 = kani::any();
        kani::assume(in_p0 >= -2.0 && in_p0 <= 2.0 && in_p1 >= -2.0 && in_p1 <= 2.0 && in_p2 >= -2.0 && in_p2 <= 2.0);
        let w = m.mul_arr([in_p0, in_p1, in_p2]);
        let e = a[0] * in_p0 + (a[1] * in_p1 + a[2] * in_p2);
        assert!(w[%(row)d].to_bits() == e.to_bits(), "mul_arr row == m0*p0 + (m1*p1 + m2*p2) evaluated in f32");
        kani::cover!(k0 == 100 && k2 == -77, "non-trivial coefficients explored");
    }
''' % dict(name=name, row=row, r0=rows[0], r1=rows[1], r2=rows[2])


# ------------------------------------------------------------------ glue

def mat(consts, which, mc):
    v = consts[which][str(mc)]
    return [[glue.f32(v[i * 3 + j]) for j in range(3)] for i in range(3)]


def glue_c01(consts, mc, bd, full):
    """for all real normalised (ys,us,vs) in the box and computed p within EPS_A: |row_i(M_f32)*p + e_i - H273_i(ys,us,vs)| <= 3e-6"""
    M = mat(consts, "yuv2rgb", mc)
    H = h273_inverse(mc)
    res = []
    for i, ch in enumerate("RGB"):
        q = glue.Query("c01-%s-%d-%s-%s" % (MC_NAME[mc], bd, "full" if full else "lim", ch),
                       "forall codes (relaxed to reals), %s %d-bit %s: |%s_code - %s_H273| <= 3e-6, from A-lemma (EPS_A=%.1e), W-lemma, real f32 coefficients and the IEEE standard model of the dot product" % (
                           MC_NAME[mc], bd, "full" if full else "limited", ch, ch, float(EPS_A)))
        ideal = [q.real("ys", 0, 1), q.real("us", F(-1, 2), F(1, 2)), q.real("vs", F(-1, 2), F(1, 2))]
        p = [q.real("py", 0, 1), q.real("pu", F(-1, 2), F(1, 2)), q.real("pv", F(-1, 2), F(1, 2))]
        for a, b in zip(p, ideal):
            q.add("(<= %s %s)" % (absv("(- %s %s)" % (a, b)), rat(EPS_A)))
        rho = glue.rho_dot3(M[i], [1, F(1, 2), F(1, 2)])
        q.real("e", -rho, rho)
        q.define("got", "(+ %s e)" % lin(M[i], p))
        q.define("want", lin(H[i], ideal))
        q.add("(> %s %s)" % (absv("(- got want)"), rat(TOL_C01)))
        res.append(q)
    return res


def glue_c02(consts, mc, bd, full):
    S = {False: quant_consts(bd, full, False), True: quant_consts(bd, full, True)}
    M = mat(consts, "rgb2yuv", mc)
    H = h273_forward(mc)
    maxv = (1 << bd) - 1
    tol = F(1, 2) + F(1, 10 ** 6) * (1 << bd)
    eta = ETA_Q * (1 << bd)
    res = []
    for k, pl in enumerate("YUV"):
        sc, of = S[k > 0]
        q = glue.Query("c02-%s-%d-%s-%s" % (MC_NAME[mc], bd, "full" if full else "lim", pl),
                       "forall rgb in [-0.5,1.5]^3, %s %d-bit %s: |%s_code - clamp(H273 ideal)| <= 0.5+1e-6*2^n, from Q-lemma (ETA_Q=%.1e*2^n), W-lemma, real f32 coefficients, standard model" % (
                           MC_NAME[mc], bd, "full" if full else "limited", pl, float(ETA_Q)))
        rgb = [q.real(n, F(-1, 2), F(3, 2)) for n in ("r", "g", "b")]
        rho = glue.rho_dot3(M[k], [F(3, 2)] * 3)
        q.real("e", -rho, rho)
        q.define("qv", "(+ %s e)" % lin(M[k], rgb))
        q.real("code")
        q.add("(<= %s %s)" % (absv("(- code %s)" % clamp("(+ (* %s qv) %s)" % (rat(sc), rat(of)), 0, maxv)), rat(F(1, 2) + eta)))
        q.define("ideal", clamp("(+ (* %s %s) %s)" % (rat(sc), lin(H[k], rgb), rat(of)), 0, maxv))
        # negation: outside the tolerance, or the kernel input leaves the box the Q-lemma was proved on
        q.add("(or (> %s %s) (< qv %s) (> qv %s))" % (absv("(- code ideal)"), rat(tol), rat(QBOX[0]), rat(QBOX[1])))
        res.append(q)
    return res


def glue_c08(consts, mc, bd, full):
    """decode then encode returns the (legal-range clamped) code: pre-rounding value within 0.5 - theta of it, theta > ETA_Q"""
    Mi = mat(consts, "yuv2rgb", mc)
    Mf = mat(consts, "rgb2yuv", mc)
    maxv = (1 << bd) - 1
    eta = ETA_Q * (1 << bd)
    theta = eta + F(1, 1000)
    k8 = 1 << (bd - 8)
    res = []
    for k, pl in enumerate("YUV"):
        chroma = k > 0
        sc, of = quant_consts(bd, full, chroma)
        q = glue.Query("c08-%s-%d-%s-%s" % (MC_NAME[mc], bd, "full" if full else "lim", pl),
                       "forall code triples (reals), %s %d-bit %s: the value fed to the %s quantiser is within 0.5-theta of the legal-range-clamped input code (theta=%.3g > ETA_Q*2^n), hence the Q-lemma returns exactly that code" % (
                           MC_NAME[mc], bd, "full" if full else "limited", pl, float(theta)))
        codes = [q.real("cy", 0, maxv), q.real("cu", 1 if full else 0, maxv), q.real("cv", 1 if full else 0, maxv)]
        ideal = []
        for j, c in enumerate(codes):
            s, o = quant_consts(bd, full, j > 0)
            ideal.append(q.define("n%d" % j, clamp("(/ (- %s %s) %s)" % (c, rat(o), rat(s)), 0 if j == 0 else F(-1, 2), 1 if j == 0 else F(1, 2))))
        p = [q.real("py", 0, 1), q.real("pu", F(-1, 2), F(1, 2)), q.real("pv", F(-1, 2), F(1, 2))]
        for a, b in zip(p, ideal):
            q.add("(<= %s %s)" % (absv("(- %s %s)" % (a, b)), rat(EPS_A)))
        rgb = []
        rgbmax = []
        for i in range(3):
            rho = glue.rho_dot3(Mi[i], [1, F(1, 2), F(1, 2)])
            q.real("ed%d" % i, -rho, rho)
            rgb.append(q.define("rgb%d" % i, "(+ %s ed%d)" % (lin(Mi[i], p), i)))
            rgbmax.append(abs(Mi[i][0]) + (abs(Mi[i][1]) + abs(Mi[i][2])) / 2 + rho)
        rho = glue.rho_dot3(Mf[k], rgbmax)
        q.real("ef", -rho, rho)
        q.define("qv", "(+ %s ef)" % lin(Mf[k], rgb))
        q.define("pre", "(+ (* %s qv) %s)" % (rat(sc), rat(of)))
        if full:
            legal = codes[k]
        else:
            legal = clamp(codes[k], 16 * k8, (240 if chroma else 235) * k8)
        q.add("(or (> %s %s) (< qv %s) (> qv %s))" % (absv("(- pre %s)" % legal), rat(F(1, 2) - theta), rat(QBOX[0]), rat(QBOX[1])))
        res.append(q)
        if full and chroma:
            # the tolerated deviation: full-range chroma code 0 comes back as 0 or 1
            q2 = glue.Query("c08-%s-%d-full-%s-code0" % (MC_NAME[mc], bd, pl),
                            "full-range chroma code 0 returns 0 or 1: pre-rounding value within [-0.5+theta, 1.5-theta]")
            codes = [q2.real("cy", 0, maxv), q2.real("cu", 0, maxv), q2.real("cv", 0, maxv)]
            q2.add("(= %s 0.0)" % codes[k])
            ideal = []
            for j, c in enumerate(codes):
                s, o = quant_consts(bd, full, j > 0)
                ideal.append(q2.define("n%d" % j, clamp("(/ (- %s %s) %s)" % (c, rat(o), rat(s)), 0 if j == 0 else F(-1, 2), 1 if j == 0 else F(1, 2))))
            p = [q2.real("py", 0, 1), q2.real("pu", F(-1, 2), F(1, 2)), q2.real("pv", F(-1, 2), F(1, 2))]
            for a, b in zip(p, ideal):
                q2.add("(<= %s %s)" % (absv("(- %s %s)" % (a, b)), rat(EPS_A)))
            rgb = []
            for i in range(3):
                rho = glue.rho_dot3(Mi[i], [1, F(1, 2), F(1, 2)])
                q2.real("ed%d" % i, -rho, rho)
                rgb.append(q2.define("rgb%d" % i, "(+ %s ed%d)" % (lin(Mi[i], p), i)))
            rho = glue.rho_dot3(Mf[k], rgbmax)
            q2.real("ef", -rho, rho)
            q2.define("qv", "(+ %s ef)" % lin(Mf[k], rgb))
            q2.define("pre", "(+ (* %s qv) %s)" % (rat(sc), rat(of)))
            q2.add("(or (< pre %s) (> pre %s))" % (rat(F(-1, 2) + theta), rat(F(3, 2) - theta)))
            res.append(q2)
    return res


# ------------------------------------------------------------------ replay (end to end, public API, f64 oracle)

def replay_codes(ctx, spec, f):
    ins = {k: int(v["bin"], 2) for k, v in (f.get("inputs") or {}).items()}
    T, bd, full = spec["cfg"]
    kind = spec["rkind"]
    mcs = [MC_STD[spec["mi"]]] if "mi" in spec else MC_STD
    if kind in ("a",):
        if "in_c" not in ins:
            return {"reproduced": None, "detail": "inputs not found"}
        c = ins["in_c"]
        trip = [(c, c, c)]
    elif kind == "wd":
        if any(k not in ins for k in ("in_y", "in_u", "in_v")):
            return {"reproduced": None, "detail": "inputs not found"}
        trip = [(ins["in_y"], ins["in_u"], ins["in_v"])]
    else:
        trip = None
    outs = []
    rep = False
    if trip is not None:
        # the solver's codes first; a wiring mismatch is structural, so codes at the range boundaries are probed as well
        # (replay only confirms a violation of the property as written, it never decides)
        k8 = 1 << (bd - 8)
        mid = 1 << (bd - 1)
        edge = sorted(set([0, 1, 16 * k8, 16 * k8 + 1, mid, 235 * k8, 236 * k8, 238 * k8, 240 * k8, 240 * k8 + 1, (1 << bd) - 1]))
        trip = list(trip) + [(mid, e, mid) for e in edge] + [(mid, mid, e) for e in edge] + [(e, mid, mid) for e in edge]
        for mc in mcs:
            for (y, u, v) in trip:
                for what in ("dec", "rt"):
                    r = native.replay_native(ctx, "yuv", [what, T, bd, int(full), mc, y, u, v], both_profiles=False)
                    outs.append(r)
                    rep = rep or bool(r.get("reproduced"))
        return {"reproduced": rep, "detail": "; ".join(o["detail"] for o in outs if o.get("reproduced"))[:600] or "end-to-end property holds natively for the counterexample input (all matrices tried)",
                "kind": "yuv", "args": outs[0]["args"] if outs else []}
    # float inputs: q (single value through each plane's quantiser is not reachable alone) / we (pixel)
    if kind == "we":
        if any(k not in ins for k in ("in_r", "in_g", "in_b")):
            return {"reproduced": None, "detail": "inputs not found"}
        px = ["%x" % ins[k] for k in ("in_r", "in_g", "in_b")]
        for mc in mcs:
            r = native.replay_native(ctx, "yuv", ["enc", T, bd, int(full), mc] + px, both_profiles=False)
            outs.append(r)
            rep = rep or bool(r.get("reproduced"))
        return {"reproduced": rep, "detail": "; ".join(o["detail"] for o in outs if o.get("reproduced"))[:600] or "end-to-end property holds natively for the counterexample pixel", "kind": "yuv", "args": outs[0]["args"]}
    if kind == "q":
        if "in_v" not in ins:
            return {"reproduced": None, "detail": "inputs not found"}
        import struct
        v = F(struct.unpack("<f", struct.pack("<I", ins["in_v"]))[0]) if ins["in_v"] < (1 << 32) else F(0)
        fbits = lambda x: "%x" % struct.unpack("<I", struct.pack("<f", float(x)))[0]
        maxv = (1 << bd) - 1
        for mc in MC_STD:
            H = h273_inverse(mc)
            # the kernel input v as luma (grey pixel), as Cb and as Cr of an otherwise mid-grey pixel
            for yuv in ([v, 0, 0], [F(1, 2), v, 0], [F(1, 2), 0, v]):
                rgb = [sum(H[i][j] * yuv[j] for j in range(3)) for i in range(3)]
                r = native.replay_native(ctx, "yuv", ["enc", T, bd, int(full), mc] + [fbits(c) for c in rgb], both_profiles=False)
                outs.append(r)
                if r.get("reproduced"):
                    return r
            # and as a code of the round trip (C08): the code whose normalised value is nearest to v
            for chroma in (False, True):
                s_, o_ = quant_consts(bd, full, chroma)
                k = min(maxv, max(0, int(round(float(v * s_ + o_)))))
                mid = 1 << (bd - 1)
                for trip in ((k, mid, mid), (mid, k, mid), (mid, mid, k)):
                    r = native.replay_native(ctx, "yuv", ["rt", T, bd, int(full), mc] + list(trip), both_profiles=False)
                    outs.append(r)
                    if r.get("reproduced"):
                        return r
        return {"reproduced": False, "detail": "end-to-end properties (C02 encode, C08 round trip) hold natively around the counterexample value for all 7 matrices", "kind": "yuv", "args": outs[0]["args"]}
    return {"reproduced": None, "detail": "no replay recipe"}


def replay_glue(ctx, q, res, kind, mc, bd, full):
    """turn a satisfying real-valued glue model into concrete codes / a concrete pixel and evaluate the property natively"""
    import struct
    m = glue.parse_model(res.get("model", ""))
    maxv = (1 << bd) - 1
    T = "u16"
    outs = []
    fb = lambda v: "%x" % struct.unpack("<I", struct.pack("<f", float(v)))[0]
    if kind == "c01":
        if not all(k in m for k in ("ys", "us", "vs")):
            return {"reproduced": None, "detail": "model values not found"}
        codes = []
        for j, k in enumerate(("ys", "us", "vs")):
            s_, o_ = quant_consts(bd, full, j > 0)
            codes.append(min(maxv, max(0, int(round(float(m[k] * s_ + o_))))))
        cand = [tuple(codes)]
        # the affine map is monotone in each code: also try the box corners nearest to the model
        lo, hi = (0, maxv) if full else (16 << (bd - 8), 240 << (bd - 8))
        for a in (lo, hi):
            for b in (lo, hi):
                cand.append((codes[0], a, b))
        for (y, u, v) in cand:
            r = native.replay_native(ctx, "yuv", ["dec", T, bd, int(full), mc, y, u, v], both_profiles=False)
            if r.get("reproduced"):
                return r
            outs.append(r)
    elif kind == "c02":
        if not all(k in m for k in ("r", "g", "b")):
            return {"reproduced": None, "detail": "model values not found"}
        cand = [[m["r"], m["g"], m["b"]]]
        for px in cand:
            r = native.replay_native(ctx, "yuv", ["enc", T, bd, int(full), mc] + [fb(c) for c in px], both_profiles=False)
            if r.get("reproduced"):
                return r
            outs.append(r)
    else:
        if not all(k in m for k in ("cy", "cu", "cv")):
            return {"reproduced": None, "detail": "model values not found"}
        base = [min(maxv, max(0, int(round(float(m[k]))))) for k in ("cy", "cu", "cv")]
        cand = [tuple(base)] + [tuple(min(maxv, max(0, base[i] + d[i])) for i in range(3)) for d in ((1, 0, 0), (0, 1, 0), (0, 0, 1), (-1, 0, 0), (0, -1, 0), (0, 0, -1))]
        for (y, u, v) in cand:
            r = native.replay_native(ctx, "yuv", ["rt", T, bd, int(full), mc, y, u, v], both_profiles=False)
            if r.get("reproduced"):
                return r
            outs.append(r)
    return outs[-1] if outs else {"reproduced": None, "detail": "no candidate"}
