"""C08 - YUV->RGB->YUV is a lossless code round trip (by composition of the C01 and C02 lemmas)."""
import os
from vlib.check import Plan
from vlib import native
from props import yuvfam as Y
from props.C01 import select_cfgs, w_instances
from props.C02 import add_q, add_k, add_we


def plan(tier, seed):
    p = Plan()
    p.native = True
    p.stubbing = True
    p.modules.append(("yuvxyb-math/src/matrix.rs", open(os.path.join(os.path.dirname(__file__), "..", "harness", "math_stub.rs")).read()))
    p.modules.append(("src/yuv.rs", open(os.path.join(os.path.dirname(__file__), "..", "harness", "yuv_unchecked.rs")).read()))
    p.modules.append(("yuvxyb-math/src/lib.rs", open(os.path.join(os.path.dirname(__file__), "..", "harness", "math_stub_lib.rs")).read()))
    wcfgs = w_instances(tier, seed + 1, light=True)
    if tier != "thorough":
        wcfgs = wcfgs[::2]

    def late(ctx, plan):
        consts = native.consts(ctx)
        hs = []
        txt = Y.PRELUDE
        for (T, bd, full) in Y.CFGS:
            n, code = Y.a_lemma(T, bd, full)
            txt += code
            hs.append(dict(name=n, family="A", timeout=900, mem_gb=8, rkind="a", cfg=(T, bd, full), replay=Y.replay_codes,
                           obligation="A-lemma %s %d-bit %s (see C01)" % (T, bd, "full" if full else "limited"), sym="code: every value in [0,2^%d)" % bd,
                           covers=["white code explored", "mid-range code explored"]))
        txt = add_q(txt, hs)
        txt = add_k(txt, hs, consts)
        for (T, bd, full, mi) in wcfgs:
            n, code = Y.w_decode(T, bd, full, mi)
            txt += code
            hs.append(dict(name=n, family="W", timeout=1500, mem_gb=28, rkind="wd", cfg=(T, bd, full), mi=mi, replay=Y.replay_codes,
                           obligation="W-lemma decode %s %d-bit %s %s (see C01)" % (T, bd, "full" if full else "limited", Y.MC_NAME[Y.MC_STD[mi]]),
                           sym="codes: all triples", covers=["mid-range output explored"]))
        txt = add_we(txt, hs, wcfgs)
        for row in (range(3) if tier == "thorough" else []):   # quick tier: the S-lemma (5-8 min per row) is run by C01's quick check and by this check's thorough tier
            n, code = Y.s_lemma(row)
            txt += code
            hs.append(dict(name=n, family="S", timeout=1500, mem_gb=10, replay=None,
                           obligation="S-lemma row %d: the real Matrix::mul_arr is bit-identical to the straight-line f32 expression m0*p0 + (m1*p1 + m2*p2) (3 products, 2 sums; what the standard-model bound in the glue is about)" % row,
                           sym="vector: every f32 in [-2,2]^3; the row's 3 coefficients on the fixed-point grid k/64, |k|<=128 (full-width coefficients make SAT prove the equivalence of two 24x24 multiplier circuits: >1500 s); other rows generic constants",
                           covers=["non-trivial coefficients explored"]))
        txt += Y.EPILOGUE
        plan.modules.append(("src/yuv_rgb.rs", txt))
        plan.harnesses = hs

    def g(ctx):
        consts = native.consts(ctx)
        out = []
        for (T, bd, full) in Y.CFGS:
            ra = ctx.results.get("k_yr_a_" + Y.cname(T, bd, full))
            rq = ctx.results.get("k_yr_q_" + Y.cname(T, bd, full))
            if not ra or not rq or ra.status != "pass" or rq.status != "pass" or T == "u8":
                continue
            for mc in Y.MC_STD:
                for q in Y.glue_c08(consts, mc, bd, full):
                    res = q.run(cross=(bd in (8, 16)), timeout=300)
                    if res["status"] == "sat":
                        res["replay"] = Y.replay_glue(ctx, q, res, "c08", mc, bd, full)
                    out.append(res)
        return out
    p.late = late
    p.glue = [g]
    p.functions = ["everything listed under C01 and C02"]
    p.bounds = ["A- and Q-lemmas at every depth/range/storage; W-lemmas on %d of 140 instances (x2 directions)%s; glue: all 126 configurations, all real code triples (stronger than the property's exhaustive 8-bit + sampled 9..16-bit quantifier)" % (len(wcfgs), "" if tier == "thorough" else " (quick subset)")]
    p.outside = ["subsampled frames (the property is about 4:4:4)", "FMA build"]
    p.assumptions = ["W-lemmas replace Matrix::mul_arr on both sides by one pure bit-mixing stand-in (they decide the wiring: which matrix, which inputs, in which order); that the real mul_arr is the 5-operation f32 expression is the S-lemma, proved for coefficient rows on the k/64 grid and every vector - mul_arr has no data-dependent control flow, so the same operation DAG is executed for full-width coefficients (argument, not a solver result)",
                     "IEEE-754 standard model for the two dot products", "equality follows from |code - ideal| <= 0.5+eta (Q-lemma) and |ideal - k| <= 0.5-theta with theta > eta: two integers closer than 1 are equal (arithmetic, done in the glue)"]
    p.trusted += ["z3 4.8.12 (QF_LRA) cross-checked with cvc5 1.0"]
    return p


MANIFEST = dict(
    z3=True,
    technique="composition by z3 (exact rationals) of Kani/CBMC-proved kernel contracts (normalisation, quantisers, wiring) and the extracted forward/inverse f32 matrices",
    text="For all 126 configurations z3 proves that the value reaching each quantiser after decode+encode lies within 0.5-theta of the legal-range-clamped input code for ALL real code triples, theta exceeding the quantiser contract's slack; "
         "with the Q-lemma (every f32 input) this forces exact equality; the full-range chroma code 0 -> {0,1} exception is its own query.",
    note="Trusted: IEEE standard model of the two dot products; Kani/CBMC/z3. 1x1 4:4:4 frames. Non-FMA build.",
)
