"""C13 - conversions are total on arbitrary float data and always emit valid codes."""
from vlib.check import Plan
from props import total

QUANT = r'''
#[cfg(kani)]
#[allow(dead_code, unused_imports, clippy::all, clippy::pedantic, clippy::nursery)]
mod verif_c13q {
    use super::*;
%s
}
'''

def quant(T, bd, full):
    name = "k_c13_codes_%s_%d_%s" % (T, bd, "full" if full else "lim")
    return name, r'''
    #[kani::proof]
    fn %(name)s() {
        let in_v: f32 = kani::any();
        let (ls, lo) = get_scale_offset::<false>(%(bd)d, %(full)s, false);
        let (cs, co) = get_scale_offset::<false>(%(bd)d, %(full)s, true);
        let y: %(T)s = from_f32_luma(in_v, ls, lo, %(bd)d);
        let c: %(T)s = from_f32_chroma(in_v, cs, co, %(bd)d, %(full)s);
        let maxv: u32 = (1u32 << %(bd)d) - 1;
        assert!(u32::from(u16::cast_from(y)) <= maxv, "luma code within [0, 2^n-1]");
        assert!(u32::from(u16::cast_from(c)) <= maxv, "chroma code within [0, 2^n-1]");
        kani::cover!(in_v.is_nan(), "NaN explored");
        kani::cover!(in_v > 3.0e38, "huge value explored");
        kani::cover!(u32::from(u16::cast_from(y)) == maxv, "maximum code reachable");
    }
''' % dict(name=name, T=T, bd=bd, full="true" if full else "false")


XYB_STUB = r'''
    fn stub_cbrtf_any(_x: f32) -> f32 { kani::any() }
    #[kani::proof]
    #[kani::unwind(5)]
    #[kani::stub(yuvxyb_math::cbrtf::cbrtf, stub_cbrtf_any)]
    fn k_c13_xyb_fwd_anycbrt() {
        let in_r: f32 = kani::any(); let in_g: f32 = kani::any(); let in_b: f32 = kani::any();
        let o = Xyb::from(LinearRgb::new(vec![[in_r, in_g, in_b]], 1, 1).unwrap());
        assert!(o.width() == 1 && o.height() == 1 && o.data().len() == 1, "dimensions preserved");
        kani::cover!(in_r.is_nan() && in_b == f32::INFINITY, "special values explored");
    }
    #[kani::proof]
    fn k_c13_cbrtf_total() {
        let in_x: f32 = kani::any();
        let r = yuvxyb_math::cbrtf(in_x);
        if in_x >= 0.0 && in_x <= 4.0 { assert!(r.is_finite(), "cbrtf finite on [0,4]"); }
        kani::cover!(in_x.is_nan(), "NaN explored");
    }
'''


def codes_replay(ctx, spec, f):
    """a value v that breaks a quantiser kernel is driven through the public encode as blue/red/green/grey pixels"""
    ins = f.get("inputs") or {}
    if "in_v" not in ins:
        return {"reproduced": None, "detail": "input not found"}
    from vlib import native
    v = "%x" % int(ins["in_v"]["bin"], 2)
    T, bd, full = spec["qcfg"]
    last = None
    for px in ([0, 0, v], [v, 0, 0], [0, v, 0], [v, v, v]):
        for mc in (1, 8):
            last = native.replay_native(ctx, "conv", ["enc", T, bd, int(full), mc] + [str(c) for c in px], both_profiles=True)
            if last.get("reproduced"):
                return last
    return last


def plan(tier, seed):
    p = Plan()
    p.stubbing = True
    thorough = tier == "thorough"
    hs = []
    t = total.PRELUDE
    def add(n, code, obl, sym, covers, pre, args, to=900, mem=10):
        nonlocal t
        n2 = n.replace("k_tot_", "k_c13_")
        t += code.replace(n, n2)
        hs.append(dict(name=n2, family="total", timeout=to, mem_gb=mem, obligation=obl, sym=sym, covers=covers,
                       replay=total.replay_conv("conv"), pre_args=pre, args=args))
    for idx in total.TC_SUP:
        for tl in (True, False):
            fin = not (idx in total.LOGGY_GAMMA and not tl)
            if ((idx == 11 and not tl) or idx == 16) and not thorough:
                fin = False   # xvYCC to_gamma and PQ with the finite clause need 8-15 min: thorough tier only
            n, code = total.transfer(idx, tl, finite_clause=fin)
            add(n, code, "%s %s: no panic on any float; finite on [0,1]%s" % (total.TC_NAMES[idx], "to_linear" if tl else "to_gamma", "" if fin else " (finite clause skipped: ln/log10 over-approximated)"),
                "one component over all 2^32 bit patterns", ["NaN pixel explored", "+inf pixel explored", "huge negative pixel explored", "conversion succeeded"],
                ["tr", "lin" if tl else "gam", idx], ["in_x"], to=3000 if (idx in (11, 16) and thorough) else 900)
    cps = total.CP_SUP if thorough else [4, 9, 10, 11]
    for idx in cps:
        for d in (True, False):
            n, code = total.primaries(idx, d)
            add(n, code, "primaries %s %s BT.709: no panic on any float pixel; finite on [0,1]^3" % (total.CP_NAMES[idx], "->" if d else "<-"),
                "3 components, all 2^96 bit patterns", ["special values explored"], ["pr", "in" if d else "out", idx], ["in_r", "in_g", "in_b"])
    n, code = total.xyb(False)
    add(n, code, "XYB->linear: no panic on any float pixel; finite on [0,1]^3", "3 components, all 2^96 bit patterns", ["special values explored"], ["xyb", "back"], ["in_r", "in_g", "in_b"])
    for fwd in (True, False):
        n, code = total.hsl(fwd)
        add(n, code, "HSL %s: no panic on any float pixel%s" % ("forward" if fwd else "inverse", "; finite on [0,1]^3" if fwd else " (no numeric claim: float % is not modelled faithfully)"),
            "3 components, all 2^96 bit patterns", ["special values explored"], ["hsl", "fwd" if fwd else "back"], ["in_r", "in_g", "in_b"])
    encs = [("u8", 8, False, 1), ("u16", 10, True, 8)]
    if thorough:
        encs += [("u8", 8, True, 6), ("u16", 16, False, 9), ("u16", 12, False, 4), ("u16", 9, True, 7)]
    for (T, bd, full, mc) in encs:
        n, code = total.encode(T, bd, full, mc)
        add(n, code, "RGB->YUV (%s, %d-bit, %s, matrix #%d): no panic on any float pixel, codes in [0,2^n-1], config/dimensions as requested" % (T, bd, "full" if full else "limited", mc),
            "3 components, all 2^96 bit patterns; 1x1", ["special values explored"], ["enc", T, bd, int(full), mc], ["in_r", "in_g", "in_b"], to=1800, mem=14)
    t += XYB_STUB
    hs.append(dict(name="k_c13_xyb_fwd_anycbrt", family="total", timeout=900, mem_gb=10,
                   obligation="linear->XYB: no panic for any float pixel, whatever cbrtf returns (cbrtf stubbed by an arbitrary value; its own totality is k_c13_cbrtf_total)",
                   sym="3 components, all 2^96 bit patterns; cbrtf result arbitrary", covers=["special values explored"], replay=total.replay_conv("conv"), pre_args=["xyb", "fwd"], args=["in_r", "in_g", "in_b"]))
    hs.append(dict(name="k_c13_cbrtf_total", family="total", timeout=900, mem_gb=10, obligation="cbrtf total on all 2^32 arguments, finite on [0,4]",
                   sym="all 2^32 bit patterns", covers=["NaN explored"], replay=None))
    t += total.EPILOGUE
    p.modules.append(("src/lib.rs", t))
    q = ""
    cfgs = [("u8", 8, f) for f in (False, True)] + [("u16", bd, f) for bd in range(8, 17) for f in (False, True)]
    for (T, bd, full) in cfgs:
        n, code = quant(T, bd, full)
        q += code
        hs.append(dict(name=n, family="codes", timeout=600, mem_gb=8, obligation="from_f32_luma/chroma (%s, %d-bit, %s) return a code in [0,2^n-1] for every f32" % (T, bd, "full" if full else "limited"),
                       sym="value: all 2^32 bit patterns", covers=["NaN explored", "huge value explored", "maximum code reachable"], replay=codes_replay, qcfg=(T, bd, full)))
    p.modules.append(("src/yuv_rgb.rs", QUANT % q))
    p.harnesses = hs
    p.functions = ["every TryFrom/From conversion between Rgb, LinearRgb, Xyb, Hsl and Rgb->Yuv (public API, 1-pixel images)", "all scalar transfer curves, transform_primaries, linear_rgb_to_xyb / xyb_to_linear_rgb, lrgb_to_hsl / hsl_to_lrgb",
                   "from_f32_luma / from_f32_chroma / get_scale_offset (src/yuv_rgb.rs)", "ypbpr_to_ycbcr incl. Yuv::new(..).unwrap() (1x1)", "yuvxyb_math::powf/expf/cbrtf"]
    p.bounds = ["all f32 bit patterns per symbolic component; 1-pixel images; every supported curve, %s primaries, quantisers at every depth 8..16 x range x storage" % ("all 11" if thorough else "4 of 11 (quick tier)")]
    p.outside = ["finite-output clause for the three curves evaluated through ln/log10 (over-approximated by Kani)", "numeric behaviour of HSL->RGB (float % not modelled faithfully); its no-panic clause is decided",
                 "images larger than one pixel (pointwise structure is C11)", "dimensions not divisible by the subsampling (known finding F6, tracked under C11)"]
    p.assumptions = ["cbrtf replaced by an arbitrary-value stub in the XYB forward harness; cbrtf's own totality is proved separately in the same run", "non-FMA build"]
    return p


MANIFEST = dict(
    technique="bounded model checking of the real conversions (Kani/CBMC) over all f32 bit patterns on 1-pixel images; panics, overflow checks, unwraps and UB checks are the assertions",
    text="Every conversion is executed symbolically with its float inputs ranging over all bit patterns (NaN, infinities, subnormals, huge values included): no panic, no overflow, no failed unwrap, "
         "and every emitted code is within [0,2^n-1] at every depth/range/storage (quantiser kernels, all 2^32 inputs each); finite inputs in [0,1] give finite outputs.",
    note="1-pixel images; non-FMA build; Kani compiles with overflow and debug assertions on, which subsumes the optimised build's panics. ln/log10 curves: no-panic only.",
)
