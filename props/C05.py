"""C05 - XYB -> linear RGB inverts the forward transform (constants and formula; rounding budget assumed)."""
from vlib.check import Plan
from vlib import native
from props import xybfam as X


def plan(tier, seed):
    p = Plan()
    p.native = True
    p.stubbing = True

    def late(ctx, plan):
        plan.modules.append(("src/rgb_xyb.rs", X.module(native.consts(ctx))))
        plan.harnesses = [
            dict(name="k_xyb_k_consts", family="K", timeout=600, mem_gb=8, replay=None, covers=[], obligation="forward and inverse opsin constants in the compiled code equal the extracted constants used by the glue; the inverse bias is the negated forward bias", sym="none"),
            dict(name="k_xyb_w_inverse", family="W", timeout=2400, mem_gb=12, replay=X.replay_xyb, dir="inv", covers=["typical XYB explored"],
                 obligation="LinearRgb::from(Xyb) on a 1-pixel image is bit-identical to Inv*((unmix(XYB) - cbrt(-b))^3 - b) in the same operation order (cbrtf stubbed on both sides); dimensions preserved",
                 sym="XYB on the fixed-point grid k/64: X in [-0.5,0.5], Y,B in [0,1.5625] (symbolic)"),
            dict(name="k_xyb_w_forward_x", family="W", timeout=2400, mem_gb=12, replay=X.replay_xyb, dir="fwd", covers=["negative mix (clamped) explored", "bright pixel explored"],
                 obligation="forward transform structure (see C04): the cube root the inverse undoes is applied to A*rgb+b", sym="pixel on the grid k/8 in [-1,4]^3"),
            dict(name="k_xyb_w_forward_y", family="W", timeout=2400, mem_gb=12, replay=X.replay_xyb, dir="fwd", covers=["negative mix (clamped) explored", "bright pixel explored"],
                 obligation="forward transform structure (see C04): the cube root the inverse undoes is applied to A*rgb+b", sym="pixel on the grid k/8 in [-1,4]^3"),
            dict(name="k_xyb_w_forward_b", family="W", timeout=2400, mem_gb=12, replay=X.replay_xyb, dir="fwd", covers=["negative mix (clamped) explored", "bright pixel explored"],
                 obligation="forward transform structure (see C04): the cube root the inverse undoes is applied to A*rgb+b", sym="pixel on the grid k/8 in [-1,4]^3"),
        ]

    def g(ctx):
        X.ctx_holder["ctx"] = ctx
        return X.glue_inverse(native.consts(ctx))
    p.late = late
    p.glue = [g]
    p.functions = ["xyb_to_linear_rgb, INVERSE_OPSIN_ABSORBANCE_MATRIX, NEG_OPSIN_ABSORBANCE_BIAS, linear_rgb_to_xyb (src/rgb_xyb.rs)", "LinearRgb::from(Xyb), Xyb::from(LinearRgb)"]
    p.bounds = ["glue: all real p in [0,1]^3, exact rationals of the f32 constants: Inv_f32*(A_f32*p) within 5e-5 of p including a 1e-6 per-channel rounding budget", "structure lemmas on fixed-point grids"]
    p.outside = ["that the floating-point rounding of cube root, cube and un-mixing stays within the 1e-6 per-channel budget (symbolic x symbolic products against a wider oracle do not finish)"]
    p.assumptions = ["rounding budget 1e-6 per mixed channel (assumed)", "cbrtf stubbed in the structure lemmas"]
    p.trusted += ["z3 4.8.12 / cvc5 1.0 (QF_LRA)"]
    return p


MANIFEST = dict(
    z3=True,
    technique="z3 over exact rationals: the extracted f32 inverse matrix times the extracted forward matrix vs identity on [0,1]^3; Kani/CBMC differential of the real inverse against the reference formula on a symbolic grid (cbrtf stubbed)",
    text="Decides exactly the 'stale inverse constants' failure the property names: the inverse literal matrix and bias agree with the forward ones to 5e-5 for every pixel in exact arithmetic (plus a stated rounding budget), and the code implements the inverse formula (un-mix, bias, cube, matrix) bit for bit on the grid. Pure rounding regressions are not decided.",
    note="Rounding of the cube/cube-root stage is an assumed budget; structure lemma on a grid; cbrtf accuracy not decided.",
)
