"""C04 - linear RGB -> XYB equals the JPEG XL opsin definition (conditional on cbrtf's 1-ulp accuracy)."""
from vlib.check import Plan
from vlib import native
from props import xybfam as X


def plan(tier, seed):
    p = Plan()
    p.native = True
    p.stubbing = True

    def late(ctx, plan):
        plan.modules.append(("src/rgb_xyb.rs", X.module(native.consts(ctx))))
        plan.harnesses = [
            dict(name="k_xyb_k_consts", family="K", timeout=600, mem_gb=8, replay=None, covers=[], obligation="opsin matrix, bias, inverse matrix and negated bias in the compiled code equal the extracted constants used by the glue", sym="none"),
            dict(name="k_xyb_w_forward_x", family="W", timeout=2400, mem_gb=12, replay=X.replay_xyb, dir="fwd", covers=["negative mix (clamped) explored", "bright pixel explored"],
                 obligation="Xyb::from(LinearRgb) on a 1-pixel image is bit-identical to ((L-M)/2,(L+M)/2,S), (L,M,S) = cbrt(max(0, A*rgb+b)) - cbrt(b), written in the same operation order (cbrtf replaced by a pure monotone stand-in on both sides); dimensions preserved",
                 sym="pixel on the fixed-point grid k/8 in [-1,4]^3 (41^3 pixels, symbolic; includes every sign pattern of the three opsin mixes)"),
            dict(name="k_xyb_w_forward_y", family="W", timeout=2400, mem_gb=12, replay=X.replay_xyb, dir="fwd", covers=["negative mix (clamped) explored", "bright pixel explored"],
                 obligation="Xyb::from(LinearRgb) on a 1-pixel image is bit-identical to ((L-M)/2,(L+M)/2,S), (L,M,S) = cbrt(max(0, A*rgb+b)) - cbrt(b), written in the same operation order (cbrtf replaced by a pure monotone stand-in on both sides); dimensions preserved",
                 sym="pixel on the fixed-point grid k/8 in [-1,4]^3 (41^3 pixels, symbolic; includes every sign pattern of the three opsin mixes)"),
            dict(name="k_xyb_w_forward_b", family="W", timeout=2400, mem_gb=12, replay=X.replay_xyb, dir="fwd", covers=["negative mix (clamped) explored", "bright pixel explored"],
                 obligation="Xyb::from(LinearRgb) on a 1-pixel image is bit-identical to ((L-M)/2,(L+M)/2,S), (L,M,S) = cbrt(max(0, A*rgb+b)) - cbrt(b), written in the same operation order (cbrtf replaced by a pure monotone stand-in on both sides); dimensions preserved",
                 sym="pixel on the fixed-point grid k/8 in [-1,4]^3 (41^3 pixels, symbolic; includes every sign pattern of the three opsin mixes)"),
        ]

    def g(ctx):
        X.ctx_holder["ctx"] = ctx
        return X.glue_forward_consts(native.consts(ctx))
    p.late = late
    p.glue = [g]
    p.functions = ["linear_rgb_to_xyb, opsin_absorbance, mixed_to_xyb, OPSIN_ABSORBANCE_MATRIX/BIAS (src/rgb_xyb.rs)", "Xyb::from(LinearRgb) (src/xyb.rs)"]
    p.bounds = ["structure (W) lemma: all 81^3 grid pixels k/16 in [-1,4]^3", "affine stage glue: all real rgb in [-1,4]^3, f32 constants vs the libjxl decimals"]
    p.outside = ["accuracy of cbrtf itself (assumed within 1 ulp on [0,4.01]: C18's accuracy clause; the f64 Newton iteration costs seconds of SAT time per input)",
                 "pixels off the k/16 grid for the structure lemma (the code is straight-line: same operation DAG for all pixels - argument, not a solver result)",
                 "the final 2e-6 bound as a composed statement: affine stage error (decided) x cube-root conditioning (not encoded)"]
    p.assumptions = ["cbrtf within 1 ulp (not verified here)", "libjxl constants as given in the property text"]
    p.trusted += ["z3 4.8.12 / cvc5 1.0 (QF_LRA)"]
    return p


MANIFEST = dict(
    z3=True,
    technique="Kani/CBMC differential of the real forward transform against the libjxl formula on a symbolic pixel grid (cbrtf stubbed) + z3 over exact rationals for the f32 opsin constants vs the libjxl decimals",
    text="Decides that the code implements exactly the libjxl formula (clamp at 0 before the cube root, bias handling, X/Y/B mixing, matrix layout) for every grid pixel of [-1,4]^3, and that the f32 matrix/bias reproduce the libjxl affine stage to 2.5e-7 relative for all real pixels. "
         "The end-to-end 2e-6 bound is conditional on cbrtf's accuracy, which is not decided.",
    note="Conditional claim: cbrtf accuracy assumed; structure lemma on the k/16 grid; non-FMA irrelevant here (f32::mul_add is fused in both builds).",
)
