"""C11 - conversions are pointwise, order-preserving and layout-independent."""
from vlib.check import Plan
from vlib import native
from props import geom

ENC_PRELUDE = r'''
#[cfg(kani)]
#[allow(dead_code, unused_imports, clippy::all, clippy::pedantic, clippy::nursery)]
mod verif_c11e {
    use super::*;
    use crate::verif_common::*;
    /// unpadded stand-in for Plane::new (the real one allocates 64-byte aligned rows: 64+ allocation-loop iterations per row);
    /// same fill value (128), same decimation fields; stride == width
    fn stub_plane_new<T: Pixel>(width: usize, height: usize, xdec: usize, ydec: usize, _xpad: usize, _ypad: usize) -> Plane<T> {
        let buf = vec![T::cast_from(128u8); width * height];
        let mut p = Plane::from_slice(&buf, width);
        p.cfg.xdec = xdec; p.cfg.ydec = ydec;
        p
    }
    fn anyf() -> f32 { let v: f32 = kani::any(); kani::assume(v >= -1.0 && v <= 2.0); v }
'''

ENC = r'''
    #[kani::proof]
    #[kani::unwind(%(unw)d)]
    #[kani::stub(v_frame::plane::Plane::new, stub_plane_new)]
    fn %(name)s() {
        let mut input = vec![[0.0f32; 3]; %(n)d];
        for i in 0..%(n)d { input[i] = [anyf(), anyf(), anyf()]; }
        let keep = input.clone();
        let c = YuvConfig { bit_depth: %(bd)d, subsampling_x: %(ssx)d, subsampling_y: %(ssy)d, full_range: %(full)s, matrix_coefficients: MC::BT709,
            transfer_characteristics: TC::BT1886, color_primaries: CP::BT709 };
        let out = ypbpr_to_ycbcr::<%(T)s>(&input, %(w)d, %(h)d, c);
        let (ls, lo) = get_scale_offset::<false>(%(bd)d, %(full)s, false);
        let (cs, co) = get_scale_offset::<false>(%(bd)d, %(full)s, true);
        assert!(out.width() == %(w)d && out.height() == %(h)d, "width and height preserved");
        assert!(out.data()[1].cfg.width == %(cw)d && out.data()[1].cfg.height == %(ch)d && out.data()[2].cfg.width == %(cw)d && out.data()[2].cfg.height == %(ch)d, "chroma plane sizes (w>>ss_x, h>>ss_y)");
        for y in 0..%(h)d { for x in 0..%(w)d {
            let e: %(T)s = from_f32_luma(keep[y * %(w)d + x][0], ls, lo, %(bd)d);
            assert!(out.data()[0].p(x, y) == e, "luma sample (x,y) is the 1x1 encoding of pixel (x,y)");
        } }
        for cy in 0..%(ch)d { for cx in 0..%(cw)d {
            let (gu, gv) = (out.data()[1].p(cx, cy), out.data()[2].p(cx, cy));
            let mut ok = false;
            for dy in 0..%(by)d { for dx in 0..%(bx)d {
                let px = keep[((cy << %(ssy)d) + dy) * %(w)d + (cx << %(ssx)d) + dx];
                let eu: %(T)s = from_f32_chroma(px[1], cs, co, %(bd)d, %(full)s);
                let ev: %(T)s = from_f32_chroma(px[2], cs, co, %(bd)d, %(full)s);
                if gu == eu && gv == ev { ok = true; }
            } }
            assert!(ok, "chroma sample equals the 4:4:4 chroma of a pixel inside its own block");
        } }
        for i in 0..%(n)d { for k in 0..3 { assert!(input[i][k].to_bits() == keep[i][k].to_bits(), "borrowed source unmodified"); } }
        kani::cover!(out.data()[0].p(0, 0) > 100, "bright sample explored");
    }
'''

ODD = r'''
    fn odd_dims(in_w: usize, in_h: usize, in_ssx: u8, in_ssy: u8) {
        // dimensions that are not a multiple of the subsampling factor (known finding F6)
        let rgb = crate::Rgb::new(vec![[0.5, 0.25, 0.75]; 9][..in_w * in_h].to_vec(), in_w, in_h, TC::BT1886, CP::BT709).unwrap();
        let c = YuvConfig { bit_depth: 8, subsampling_x: in_ssx, subsampling_y: in_ssy, full_range: false, matrix_coefficients: MC::BT709,
            transfer_characteristics: TC::BT1886, color_primaries: CP::BT709 };
        let r = Yuv::<u8>::try_from((&rgb, c));
        if let Ok(y) = r { assert!(y.width() == in_w && y.height() == in_h, "dimensions preserved"); }
    }
    #[kani::proof]
    #[kani::unwind(12)]
    #[kani::stub(v_frame::plane::Plane::new, stub_plane_new)]
    fn k_c11_enc_odd_dims_3x1_ss10() { odd_dims(3, 1, 1, 0) }
    #[kani::proof]
    #[kani::unwind(12)]
    #[kani::stub(v_frame::plane::Plane::new, stub_plane_new)]
    fn k_c11_enc_odd_dims_1x3_ss01() { odd_dims(1, 3, 0, 1) }
    #[kani::proof]
    #[kani::unwind(12)]
    #[kani::stub(v_frame::plane::Plane::new, stub_plane_new)]
    fn k_c11_enc_odd_dims_3x3_ss11() { odd_dims(3, 3, 1, 1) }
'''

VEC_PRELUDE = r'''
#[cfg(kani)]
#[allow(dead_code, unused_imports, clippy::all, clippy::pedantic, clippy::nursery)]
mod verif_c11v {
    use crate::verif_common::*;
    use crate::*;
    // Pure bit-mixing stand-ins.  The per-pixel kernels (scalar transfer curves, opsin mixing, HSL formula, matrix product, math
    // helpers) are functions of ONE pixel by construction; what these harnesses decide is that the image-level loops apply them to
    // every pixel, independently, in row-major order - for every pixel bit pattern.
    fn stub_powf(x: f32, y: f32) -> f32 { f32::from_bits(x.to_bits() ^ y.to_bits().rotate_left(7) ^ 0x5555_5555) }
    fn stub_expf(x: f32) -> f32 { f32::from_bits(x.to_bits().rotate_left(3) ^ 0x0F0F_0F0F) }
    fn stub_cbrtf(x: f32) -> f32 { f32::from_bits(x.to_bits().rotate_left(5) ^ 0x3333_3333) }
    fn stub_curve(x: f32) -> f32 { f32::from_bits(x.to_bits().rotate_left(11) ^ 0x1357_9BDF) }
    fn stub_px_ref(p: &[f32; 3]) -> [f32; 3] {
        [f32::from_bits(p[0].to_bits() ^ p[1].to_bits().rotate_left(9) ^ p[2].to_bits().rotate_left(18)), f32::from_bits(p[1].to_bits().rotate_left(3) ^ p[2].to_bits()),
         f32::from_bits(p[2].to_bits().rotate_left(5) ^ p[0].to_bits())]
    }
    fn stub_px_val(p: [f32; 3]) -> [f32; 3] { stub_px_ref(&p) }
    fn anyp() -> [f32; 3] { [kani::any(), kani::any(), kani::any()] }
    fn same(a: &[f32; 3], b: &[f32; 3]) -> bool { a[0].to_bits() == b[0].to_bits() && a[1].to_bits() == b[1].to_bits() && a[2].to_bits() == b[2].to_bits() }
'''

VEC_ONE = r'''
    #[kani::proof]
    #[kani::unwind(12)]
%(stubs)s
    fn %(name)s() {
        let px = [anyp(), anyp(), anyp()];
        let conv = %(conv)s;
        let (all, w, h): (Vec<[f32; 3]>, usize, usize) = conv(px.to_vec(), 3, 1);
        assert!(all.len() == 3 && w == 3 && h == 1, "width, height and pixel count preserved");
        for i in 0..3 {
            let (one, _, _) = conv(vec![px[i]], 1, 1);
            assert!(same(&all[i], &one[0]), "output pixel i equals the conversion of the 1x1 image holding input pixel i, bit for bit");
        }
        let (tall, w2, h2) = conv(px.to_vec(), 1, 3);
        assert!(w2 == 1 && h2 == 3, "a 1x3 image keeps its shape");
        for i in 0..3 { assert!(same(&all[i], &tall[i]), "row-major order independent of the image shape; repeating the conversion gives bit-identical output"); }
        kani::cover!(px[0][0].is_nan() && px[2][1] == 0.5, "arbitrary pixels explored");
    }
'''

ST = "    #[kani::stub(%s, %s)]"
MATH = [ST % ("yuvxyb_math::pow_exp::powf", "stub_powf"), ST % ("yuvxyb_math::pow_exp::expf", "stub_expf"), ST % ("yuvxyb_math::cbrtf::cbrtf", "stub_cbrtf"),
        ST % ("yuvxyb_math::matrix::Matrix::mul_arr", "yuvxyb_math::matrix::verif_stub_mul_arr")]
VECS = [
    ("k_c11_vec_to_linear_srgb_p2020", "Rgb(sRGB, BT.2020) -> LinearRgb", [ST % ("crate::yuv_rgb::transfer::srgb_eotf", "stub_curve")],
     "|d: Vec<[f32; 3]>, w, h| { let o = LinearRgb::try_from(Rgb::new(d, w, h, TC::SRGB, CP::BT2020).unwrap()).unwrap(); (o.data().to_vec(), o.width(), o.height()) }"),
    ("k_c11_vec_to_gamma_pq_p3", "LinearRgb -> Rgb(PQ, P3-DCI)", [ST % ("crate::yuv_rgb::transfer::st_2084_oetf", "stub_curve")],
     "|d: Vec<[f32; 3]>, w, h| { let o = Rgb::try_from((LinearRgb::new(d, w, h).unwrap(), TC::PerceptualQuantizer, CP::P3DCI)).unwrap(); (o.data().to_vec(), o.width(), o.height()) }"),
    ("k_c11_vec_xyb_forward", "LinearRgb -> Xyb", [ST % ("crate::rgb_xyb::opsin_absorbance", "stub_px_ref"), ST % ("crate::rgb_xyb::mixed_to_xyb", "stub_px_ref")],
     "|d: Vec<[f32; 3]>, w, h| { let o = Xyb::from(LinearRgb::new(d, w, h).unwrap()); (o.data().to_vec(), o.width(), o.height()) }"),
    ("k_c11_vec_hsl_forward", "LinearRgb -> Hsl", [ST % ("crate::hsl::lrgb_to_hsl", "stub_px_val")],
     "|d: Vec<[f32; 3]>, w, h| { let o = Hsl::from(LinearRgb::new(d, w, h).unwrap()); (o.data().to_vec(), o.width(), o.height()) }"),
    ("k_c11_vec_hsl_inverse", "Hsl -> LinearRgb", [ST % ("crate::linear_rgb::hsl_to_lrgb", "stub_px_val")],
     "|d: Vec<[f32; 3]>, w, h| { let o = LinearRgb::from(Hsl::new(d, w, h).unwrap()); (o.data().to_vec(), o.width(), o.height()) }"),
    ("k_c11_vec_xyb_from_rgb_hlg", "Rgb(HLG) -> Xyb", [ST % ("crate::yuv_rgb::transfer::arib_b67_inverse_oetf", "stub_curve"), ST % ("crate::rgb_xyb::opsin_absorbance", "stub_px_ref"), ST % ("crate::rgb_xyb::mixed_to_xyb", "stub_px_ref")],
     "|d: Vec<[f32; 3]>, w, h| { let o = Xyb::try_from(Rgb::new(d, w, h, TC::HybridLogGamma, CP::BT709).unwrap()).unwrap(); (o.data().to_vec(), o.width(), o.height()) }"),
]
# the inverse XYB loop has no per-pixel helper function: real arithmetic on fixed-point pixels
VEC_XYB_INV = r'''
    #[kani::proof]
    #[kani::unwind(12)]
    #[kani::stub(yuvxyb_math::cbrtf::cbrtf, stub_cbrtf)]
    fn k_c11_vec_xyb_inverse() {
        fn c() -> f32 { let k: i8 = kani::any(); (k as f32) * 0.015625 }
        let px = [[c(), c(), c()], [c(), c(), c()], [c(), c(), c()]];
        let conv = |d: Vec<[f32; 3]>, w, h| { let o = LinearRgb::from(Xyb::new(d, w, h).unwrap()); (o.data().to_vec(), o.width(), o.height()) };
        let (all, w, h): (Vec<[f32; 3]>, usize, usize) = conv(px.to_vec(), 3, 1);
        assert!(all.len() == 3 && w == 3 && h == 1, "width, height and pixel count preserved");
        for i in 0..3 {
            let (one, _, _) = conv(vec![px[i]], 1, 1);
            assert!(same(&all[i], &one[0]), "output pixel i equals the conversion of the 1x1 image holding input pixel i, bit for bit");
        }
    }
'''


def vec_module():
    t = VEC_PRELUDE
    for (n, what, extra, conv) in VECS:
        t += VEC_ONE % dict(name=n, conv=conv, stubs="\n".join(MATH + extra))
    t += VEC_XYB_INV
    return t + "}\n"


def geom_replay_none(ctx, spec, f):
    return {"reproduced": None, "detail": "structural counterexample on a symbolic frame; see the failed check and inputs"}


def enc_replay(ctx, spec, f):
    e = spec["enc"]
    return native.replay_native(ctx, "layout", ["enc", e["T"], e["w"], e["h"], e["ssx"], e["ssy"], e["bd"], int(e["full"])])


def dec_replay(ctx, spec, f):
    e = spec["dec"]
    return native.replay_native(ctx, "layout", ["dec", e["T"], e["w"], e["h"], e["ssx"], e["ssy"], e["bd"], 0])


def plan(tier, seed):
    import os
    p = Plan()
    p.stubbing = True
    thorough = tier == "thorough"
    here = os.path.dirname(__file__)
    p.modules.append(("yuvxyb-math/src/matrix.rs", open(os.path.join(here, "..", "harness", "math_stub.rs")).read()))
    p.modules.append(("yuvxyb-math/src/lib.rs", open(os.path.join(here, "..", "harness", "math_stub_lib.rs")).read()))
    hs = []
    # (a) decode: pointwise + layout independence on symbolic-geometry frames with symbolic contents
    inst = [("u8", 1, 1, 2, 2), ("u8", 2, 0, 4, 1)]
    if thorough:
        inst += [("u16", 1, 0, 2, 1), ("u8", 0, 0, 2, 1), ("u8", 0, 1, 2, 2), ("u8", 1, 1, 4, 2), ("u16", 0, 0, 2, 2), ("u8", 2, 2, 4, 4)]
    txt = geom.PRELUDE
    for k, (T, sx, sy, w, h) in enumerate(inst):
        n = "k_c11_dec_%s_ss%d%d_%dx%d" % (T, sx, sy, w, h)
        txt += geom.decode_harness(T, sx, sy, w, h, n, 8 if T == "u8" else 10, symbolic_content=True, pointwise=True, ue=k % 2, ve=(k + 1) % 2, keepcmp=thorough, full=(k % 2 == 1), light=(not thorough or sx == 2 or sy == 2 or w * h >= 8))
        hs.append(dict(name=n, family="decode", timeout=3000 if thorough else 1500, mem_gb=30, unwind_rules=geom.decode_rules(w, h), replay=dec_replay,
                       dec=dict(T=T, w=w, h=h, ssx=sx, ssy=sy, bd=8 if T == "u8" else 10), covers=["accepted", "decoded"],
                       obligation="decode %s %dx%d subsampling (%d,%d): output pixel (x,y) is bit-identical to the kernels applied to Y(x,y), U/V(x>>ss_x,y>>ss_y) computed from the visible window only - hence independent of stride, origin, padding and padding contents; source unmodified" % (T, w, h, sx, sy),
                       sym="all samples of all three buffers symbolic (padding included); strides larger than the widths and different per plane; thorough tier: luma origin, chroma window sizes and origins symbolic as well (quick tier: origin (0,0)); range concrete per instance (a symbolic range makes scale/offset symbolic: symbolic x symbolic fused multiply-adds)"))
    txt += geom.EPILOGUE
    p.modules.append(("src/yuv_rgb.rs", txt))
    # (b) encode
    einst = [("u8", 8, False, 2, 4, 1, 1), ("u8", 8, True, 1, 2, 0, 0), ("u8", 8, False, 4, 1, 2, 0)]
    if thorough:
        einst += [("u16", 10, False, 2, 2, 0, 1), ("u8", 8, False, 4, 2, 1, 0), ("u16", 12, True, 2, 2, 1, 1), ("u8", 8, False, 3, 2, 0, 0), ("u8", 8, False, 4, 4, 2, 2)]
    et = ENC_PRELUDE
    for (T, bd, full, w, h, sx, sy) in einst:
        n = "k_c11_enc_%s_ss%d%d_%dx%d" % (T, sx, sy, w, h)
        et += ENC % dict(name=n, T=T, bd=bd, full="true" if full else "false", w=w, h=h, ssx=sx, ssy=sy, cw=w >> sx, ch=h >> sy, bx=1 << sx, by=1 << sy, n=w * h, unw=w * h + 3)
        hs.append(dict(name=n, family="encode", timeout=3000 if thorough else 1500, mem_gb=16, replay=enc_replay, enc=dict(T=T, bd=bd, full=full, w=w, h=h, ssx=sx, ssy=sy), covers=["bright sample explored"],
                       obligation="encode %s %dx%d to subsampling (%d,%d): every luma sample is the 1x1 encoding of its pixel, every chroma sample equals the 4:4:4 chroma of a pixel of its own block, plane sizes (w>>ss_x,h>>ss_y), source unmodified" % (T, w, h, sx, sy),
                       sym="%d pixels x 3 components: every f32 in [-1,2]" % (w * h)))
    et += ODD + "}\n"
    for n in ("k_c11_enc_odd_dims_3x1_ss10", "k_c11_enc_odd_dims_1x3_ss01", "k_c11_enc_odd_dims_3x3_ss11"):
        hs.append(dict(name=n, family="encode", timeout=1200, mem_gb=16, replay=None, covers=[],
                       obligation="encoding to a subsampling that does not divide the dimensions (domain of known finding F6: panics instead of returning an error)", sym="concrete dimensions / subsampling with one dimension not divisible"))
    p.modules.append(("src/yuv_rgb.rs", et))
    # (c) Vec-based conversions
    p.modules.append(("src/lib.rs", vec_module()))
    for (n, what, extra, conv) in VECS:
        hs.append(dict(name=n, family="vec", timeout=1500, mem_gb=12, replay=None, covers=["arbitrary pixels explored"],
                       obligation="%s: 3-pixel image (3x1 and 1x3): pixel i == conversion of the 1x1 image of pixel i, bit for bit; dimensions preserved; shape-independent order" % what,
                       sym="3 pixels, all 2^96 bit patterns each; the per-pixel kernel (%s) and the math helpers are pure bit-mixing stand-ins: the claim is about the image-level loops" % ", ".join(x.split("(")[1].split(",")[0].split("::")[-1] for x in extra)))
    hs.append(dict(name="k_c11_vec_xyb_inverse", family="vec", timeout=1500, mem_gb=12, replay=None, covers=[],
                   obligation="Xyb -> LinearRgb: 3-pixel image: pixel i == conversion of the 1x1 image of pixel i, bit for bit (real arithmetic, cbrtf stubbed)", sym="3 pixels on the fixed-point grid k/64"))
    p.harnesses = hs
    p.functions = ["ycbcr_to_ypbpr, ypbpr_to_ycbcr (src/yuv_rgb.rs)", "image_transfer_fn! loops, transform_primaries loop (transfer.rs, color.rs)", "linear_rgb_to_xyb / xyb_to_linear_rgb loops (rgb_xyb.rs)", "Hsl::from loop (hsl.rs)",
                   "all From/TryFrom wrappers that carry width/height"]
    p.bounds = ["decode: luma windows up to %s inside buffers one sample larger in each direction" % ("4x4" if thorough else "2x2"), "encode: images up to %s; output planes built by an unpadded stand-in for Plane::new" % ("4x4" if thorough else "2x4 / 4x1"),
                "Vec-based conversions: symbolic 2-pixel images (grid components) + concrete 3-pixel images in both shapes"]
    p.outside = ["the property's sizes 1..=64 and padding up to 32 (loops are uniform in x,y, nothing size-specific is hidden - an argument, not a solver result)", "64-byte aligned strides of the real Plane::new in the encode harnesses",
                 "numeric behaviour of LinearRgb::from(Hsl) (float %); its image-level loop is covered with the per-pixel formula stubbed"]
    p.assumptions = ["math kernels replaced by pure stand-ins in the Vec harnesses (equal arguments => equal results is all that is used)", "v_frame plane representation invariant (see C07)"]
    return p


MANIFEST = dict(
    technique="bounded model checking of the real loops (Kani/CBMC): symbolic frames with symbolic contents and geometry for decode, symbolic float images for encode, 3-pixel symbolic images for the Vec-based conversions; expectations mention visible samples only",
    text="Every output sample is compared bit for bit with the 1x1 kernels applied to the corresponding visible input sample(s), for all contents (padding included), origins and chroma window geometries within small stated sizes - "
         "which is at once the pointwise, order, subsampling-block and layout-independence claim. Known finding F6 (dimensions not divisible by the subsampling: panic) is checked in its own harness.",
    note="Small images (<= 4x4); Plane::new replaced by an unpadded stand-in in the encode harnesses; math kernels stubbed in structural harnesses.",
)
