"""C18 - fast math helpers: totality (full domain), saturation of expf (full domain),
oddness of cbrtf, accuracy on reduced-precision grids (bounded)."""
from vlib.check import Plan
from vlib import native

MOD = r'''
#[cfg(kani)]
mod verif_c18 {
    use yuvxyb_math::{cbrtf, expf, powf};

    #[kani::proof]
    fn k_c18_powf_total() {
        let in_x: f32 = kani::any();
        let in_y: f32 = kani::any();
        let r = powf(in_x, in_y);
        kani::cover!(r == 0.0, "zero result reachable");
        kani::cover!(in_y.is_nan(), "nan exponent explored");
        kani::cover!(r > 1.0e30, "huge result reachable");
    }

    #[kani::proof]
    fn k_c18_expf_total() {
        let in_x: f32 = kani::any();
        let r = expf(in_x);
        kani::cover!(in_x.is_nan(), "nan argument explored");
        kani::cover!(in_x.is_infinite(), "infinite argument explored");
        kani::cover!(r == 0.0, "zero result reachable");
    }

    #[kani::proof]
    fn k_c18_cbrtf_total() {
        let in_x: f32 = kani::any();
        let r = cbrtf(in_x);
        kani::cover!(in_x.is_nan(), "nan argument explored");
        kani::cover!(r < 0.0, "negative result reachable");
    }

    #[kani::proof]
    fn k_c18_expf_saturates_high() {
        let in_x: f32 = kani::any();
        kani::assume(in_x >= 89.0 && in_x <= 1.0e38);
        let r = expf(in_x);
        assert!(r == f32::INFINITY, "expf(x)=+inf for 89<=x<=1e38");
        kani::cover!(in_x > 1.0e30, "large argument explored");
    }

    #[kani::proof]
    fn k_c18_expf_saturates_low() {
        let in_x: f32 = kani::any();
        kani::assume(in_x <= -88.0 && in_x >= -1.0e38);
        let r = expf(in_x);
        assert!(r == 0.0, "expf(x)=0 for -1e38<=x<=-88");
        kani::cover!(in_x < -1.0e30, "large negative argument explored");
    }

    #[kani::proof]
    fn k_c18_twin_must_fail() {
        let in_x: f32 = kani::any();
        kani::assume(in_x >= 89.0 && in_x <= 1.0e38);
        let r = expf(in_x);
        assert!(r != f32::INFINITY, "vacuity twin");
    }
}
'''


def acc_modules(tier):
    """accuracy clauses on reduced-precision grids, oracles from Python decimal (40 digits)"""
    from decimal import Decimal as D, getcontext
    from props import curves as CV
    getcontext().prec = 40
    thorough = tier == "thorough"
    out, specs = "", []
    # powf(x, y): x on the grid, y = every exponent the library uses plus a few generic ones
    ys = [2.4, 1 / 2.4, 2.2, 1 / 2.2, 2.8, 1 / 2.8, 0.45, 1 / 0.45, 0.15930176, 78.84375, 1 / 78.84375, 1 / 0.15930176] + ([3.0, -2.0, 0.5, 10.0, -7.25] if thorough else [-2.0])
    import struct
    f32 = lambda v: struct.unpack("<f", struct.pack("<f", v))[0]
    g = 8 if thorough else 5
    xs = [x for x in CV.grid(g, emin=-14) if x > 0] + [1.5, 2.0, 3.0, 10.0, 100.0, 1.0e4, 3.3e-5]
    for k, y in enumerate(ys):
        yf = f32(y)
        pts, want = [], []
        for x in xs:
            t = D(x) ** D(yf)
            if D("1e-35") <= t <= D("1e35"):
                pts.append(CV.bits_of(x)); want.append(t)
        tol = 2.5e-4 + 8e-6 * abs(yf)
        allp, allw = pts, want
        for cc in range(0, len(allp), 1024):
          pts, want = allp[cc:cc + 1024], allw[cc:cc + 1024]
          name = "k_c18_powf_acc_%d_%d" % (k, cc // 1024)
          out += r'''
    #[kani::proof]
    fn %(name)s() {
        const XS: [u32; %(n)d] = [%(xs)s];
        const WANT: [f64; %(n)d] = [%(want)s];
        let in_i: usize = kani::any();
        kani::assume(in_i < %(n)d);
        let r = powf(f32::from_bits(XS[in_i]), f32::from_bits(%(ybits)d)) as f64;
        assert!((r - WANT[in_i]).abs() <= %(tol)s * WANT[in_i], "powf relative error within 2.5e-4 + 8e-6*|y|");
        kani::cover!(in_i == %(n)d - 1, "last grid point explored");
    }
''' % dict(name=name, n=len(pts), xs=", ".join(map(str, pts)), want=", ".join("%.17e" % float(w) for w in want), ybits=CV.bits_of(yf), tol="%.6e" % tol)
          specs.append(dict(name=name, family="accuracy", timeout=1800, mem_gb=8, replay=replay, fn="powf", args=[], acc=("powf", pts, CV.bits_of(yf)),
                          obligation="powf(x, %.6g) relative error <= %.3e on the grid" % (yf, tol), sym="x: %d reduced-precision inputs (<= %d mantissa bits, 2^-14..1, and 1.5, 2, 3, 10, 100), symbolic index" % (len(pts), g), covers=["last grid point explored"]))
    # expf on [-85, 85]
    step = 0.01 if thorough else 0.1
    ex = []
    v = -85.0
    while v <= 85.0:
        ex.append(f32(v)); v += step
    ex += [f32(0.0), f32(1.0), f32(-1.0), f32(0.5), f32(1e-3), f32(-1e-3), f32(33.3), f32(-77.7)]
    chunk = 1024
    for c in range(0, len(ex), chunk):
        sub = ex[c:c + chunk]
        name = "k_c18_expf_acc_%d" % (c // chunk)
        out += r'''
    #[kani::proof]
    fn %(name)s() {
        const XS: [u32; %(n)d] = [%(xs)s];
        const WANT: [f64; %(n)d] = [%(want)s];
        let in_i: usize = kani::any();
        kani::assume(in_i < %(n)d);
        let r = expf(f32::from_bits(XS[in_i])) as f64;
        assert!((r - WANT[in_i]).abs() <= 1.0e-5 * WANT[in_i], "expf relative error within 1e-5 on [-85,85]");
        kani::cover!(in_i == %(n)d - 1, "last grid point explored");
    }
''' % dict(name=name, n=len(sub), xs=", ".join(str(CV.bits_of(x)) for x in sub), want=", ".join("%.17e" % float(D(x).exp()) for x in sub))
        specs.append(dict(name=name, family="accuracy", timeout=1800, mem_gb=8, replay=replay, fn="expf", args=[], acc=("expf", [CV.bits_of(x) for x in sub], None),
                          obligation="expf(x) relative error <= 1e-5", sym="x: %d points of [-85,85] (step %.2f plus a few specials), symbolic index" % (len(sub), step), covers=["last grid point explored"]))
    # cbrtf within 1 ulp: 2.5-4 s of SAT time per input (f64 Newton iteration)
    cg = 4 if thorough else 2
    cx = []
    for e in (0, 1, 2, -1, -7, 5):
        for m in range(1 << cg):
            cx.append((1.0 + m / float(1 << cg)) * 2.0 ** e)
    cx += [-x for x in cx[:8]]
    cchunk = 16
    for c in range(0, len(cx), cchunk):
        sub = cx[c:c + cchunk]
        name = "k_c18_cbrtf_acc_%d" % (c // cchunk)
        def cb(x):
            a = D(abs(x)); r = a ** (D(1) / D(3))
            return -r if x < 0 else r
        out += r'''
    #[kani::proof]
    fn %(name)s() {
        const XS: [u32; %(n)d] = [%(xs)s];
        const WANT: [f64; %(n)d] = [%(want)s];
        let in_i: usize = kani::any();
        kani::assume(in_i < %(n)d);
        let x = f32::from_bits(XS[in_i]);
        let r = cbrtf(x);
        let ulp = (f32::from_bits(r.abs().to_bits() + 1) - r.abs()) as f64;
        assert!((r as f64 - WANT[in_i]).abs() <= ulp * 1.0000001, "cbrtf within 1 ulp of the true cube root");
        assert!(cbrtf(-x).to_bits() == (-r).to_bits(), "cbrtf is odd");
        kani::cover!(in_i == %(n)d - 1, "last grid point explored");
    }
''' % dict(name=name, n=len(sub), xs=", ".join(str(CV.bits_of(x)) for x in sub), want=", ".join("%.17e" % float(cb(x)) for x in sub))
        specs.append(dict(name=name, family="accuracy", timeout=2400, mem_gb=8, replay=replay, fn="cbrtf", args=[], acc=("cbrtf", [CV.bits_of(x) for x in sub], None),
                          obligation="cbrtf(x) within 1 ulp and odd", sym="x: %d inputs (%d mantissa bits, six exponents, both signs), symbolic index" % (len(sub), cg), covers=["last grid point explored"]))
    return out, specs


def replay(ctx, spec, f):
    if spec.get("acc"):
        fn, xs, ybits = spec["acc"]
        ins = f.get("inputs") or {}
        if "in_i" not in ins:
            return {"reproduced": None, "detail": "grid index not found"}
        i = int(ins["in_i"]["bin"], 2)
        if i >= len(xs):
            return {"reproduced": None, "detail": "grid index out of range"}
        a = [fn, "%x" % xs[i]] + (["%x" % ybits] if ybits is not None else [])
        return native.replay_native(ctx, "math", a)
    ins = f.get("inputs") or {}
    fn = spec["fn"]
    args = [fn] + ["%x" % int(ins[k]["bin"], 2) for k in spec["args"] if k in ins]
    if len(args) != 1 + len(spec["args"]):
        return {"reproduced": None, "detail": "inputs not found in trace"}
    if f["class"] == "arithmetic_overflow" or "to_int_unchecked" in (f["function"] or ""):
        return native.replay_miri(ctx, "math", args)
    return native.replay_native(ctx, "math", args)


def plan(tier, seed):
    p = Plan()
    acc_txt, acc_specs = acc_modules(tier)
    p.modules.append(("src/lib.rs", MOD.rstrip().rstrip("}") + acc_txt + "}\n"))
    p.native = False
    p.functions = ["yuvxyb_math::powf / exp2 / log2 / poly5 (yuvxyb-math/src/pow_exp.rs)",
                   "yuvxyb_math::expf (pow_exp.rs:108)", "yuvxyb_math::cbrtf / cbrtf_fast (yuvxyb-math/src/cbrtf.rs)",
                   "yuvxyb_math::multiply_add (mul_add.rs, non-FMA branch)"]
    p.bounds = ["totality: all 2^64 (x,y) of powf, all 2^32 x of expf and cbrtf - no unwinding needed (loop-free)",
                "expf saturation: every f32 in [89,1e38] and [-1e38,-88]"]
    p.bounds.append("accuracy clauses: reduced-precision input grids only (powf: 12-17 exponents x ~60-500 x values; expf: 77-690 points of [-85,85]; cbrtf: 32-104 inputs), oracles = Python decimal (40 digits)")
    p.outside = ["accuracy contracts of powf/expf/cbrtf off the grids (the domains are 2^32-2^64 inputs; 0.1-4 s of SAT time per input)",
                 "FMA build (cargo kani compiles the non-FMA branch only)"]
    p.assumptions = ["Kani's checks of to_int_unchecked (float_to_int_unchecked precondition), shifts and casts stand for 'no UB'",
                     "Kani's NaN-production checks are ignored (producing NaN is not a violation)"]
    mk = lambda name, obl, sym, fn, args, **kw: dict(
        name=name, family="c18", obligation=obl, sym=sym, timeout=600, mem_gb=8, replay=replay, fn=fn, args=args, **kw)
    p.harnesses = [
        mk("k_c18_powf_total", "powf(x,y): no panic, no UB for every (x,y)", "x,y: all 2^64 f32 bit patterns", "powf",
           ["in_x", "in_y"], covers=["zero result reachable", "nan exponent explored", "huge result reachable"]),
        mk("k_c18_expf_total", "expf(x): no panic, no UB for every x", "x: all 2^32 bit patterns", "expf", ["in_x"],
           covers=["nan argument explored", "infinite argument explored", "zero result reachable"]),
        mk("k_c18_cbrtf_total", "cbrtf(x): no panic, no UB for every x", "x: all 2^32 bit patterns", "cbrtf", ["in_x"],
           covers=["nan argument explored", "negative result reachable"]),
        mk("k_c18_expf_saturates_high", "expf(x) == +inf on [89,1e38]", "x: every f32 in [89,1e38]", "expf", ["in_x"],
           covers=["large argument explored"]),
        mk("k_c18_expf_saturates_low", "expf(x) == 0 on [-1e38,-88]", "x: every f32 in [-1e38,-88]", "expf", ["in_x"],
           covers=["large negative argument explored"]),
        mk("k_c18_twin_must_fail", "vacuity twin", "x in [89,1e38]", "expf", ["in_x"], expect_fail="vacuity twin"),
    ] + acc_specs
    return p


MANIFEST = dict(
    technique="bounded model checking of the real code (Kani/CBMC, CaDiCaL) over all f32 bit patterns; Miri replay of UB counterexamples",
    text="Totality clause decided for the whole domain: powf over all 2^64 (x,y), expf and cbrtf over all 2^32 arguments (no panic, no failed "
         "float->int precondition, no overflow), and the expf saturation clauses on [89,1e38] and [-1e38,-88] for every f32. Accuracy clauses are "
         "decided only on reduced-precision grids (stated per harness); the rest of the accuracy quantifier is outside the claim.",
    note="Trusted: Kani MIR->GOTO, CBMC float bit-blasting, CaDiCaL. Non-FMA build only (cargo kani ignores target features). "
         "Accuracy vs transcendental oracles is not decidable by bit-blasting; bounded grids only.",
)
