"""C18 - fast math helpers: totality (full domain), saturation of expf (full domain),
oddness of cbrtf, accuracy on reduced-precision grids (bounded)."""
from vlib.check import Plan
from vlib import native

MOD = r'''
#[cfg(kani)]
mod verif_c18 {
    use yuvxyb_math::{cbrtf, expf, powf};

    #[kani::proof]
    fn k_c18_powf_total() {
        let in_x: f32 = kani::any();
        let in_y: f32 = kani::any();
        let r = powf(in_x, in_y);
        kani::cover!(r == 0.0, "zero result reachable");
        kani::cover!(in_y.is_nan(), "nan exponent explored");
        kani::cover!(r > 1.0e30, "huge result reachable");
    }

    #[kani::proof]
    fn k_c18_expf_total() {
        let in_x: f32 = kani::any();
        let r = expf(in_x);
        kani::cover!(in_x.is_nan(), "nan argument explored");
        kani::cover!(in_x.is_infinite(), "infinite argument explored");
        kani::cover!(r == 0.0, "zero result reachable");
    }

    #[kani::proof]
    fn k_c18_cbrtf_total() {
        let in_x: f32 = kani::any();
        let r = cbrtf(in_x);
        kani::cover!(in_x.is_nan(), "nan argument explored");
        kani::cover!(r < 0.0, "negative result reachable");
    }

    #[kani::proof]
    fn k_c18_expf_saturates_high() {
        let in_x: f32 = kani::any();
        kani::assume(in_x >= 89.0 && in_x <= 1.0e38);
        let r = expf(in_x);
        assert!(r == f32::INFINITY, "expf(x)=+inf for 89<=x<=1e38");
        kani::cover!(in_x > 1.0e30, "large argument explored");
    }

    #[kani::proof]
    fn k_c18_expf_saturates_low() {
        let in_x: f32 = kani::any();
        kani::assume(in_x <= -88.0 && in_x >= -1.0e38);
        let r = expf(in_x);
        assert!(r == 0.0, "expf(x)=0 for -1e38<=x<=-88");
        kani::cover!(in_x < -1.0e30, "large negative argument explored");
    }

    #[kani::proof]
    fn k_c18_twin_must_fail() {
        let in_x: f32 = kani::any();
        kani::assume(in_x >= 89.0 && in_x <= 1.0e38);
        let r = expf(in_x);
        assert!(r != f32::INFINITY, "vacuity twin");
    }
}
'''


def replay(ctx, spec, f):
    ins = f.get("inputs") or {}
    fn = spec["fn"]
    args = [fn] + ["%x" % int(ins[k]["bin"], 2) for k in spec["args"] if k in ins]
    if len(args) != 1 + len(spec["args"]):
        return {"reproduced": None, "detail": "inputs not found in trace"}
    if f["class"] == "arithmetic_overflow" or "to_int_unchecked" in (f["function"] or ""):
        return native.replay_miri(ctx, "math", args)
    return native.replay_native(ctx, "math", args)


def plan(tier, seed):
    p = Plan()
    p.modules.append(("src/lib.rs", MOD))
    p.native = False
    p.functions = ["yuvxyb_math::powf / exp2 / log2 / poly5 (yuvxyb-math/src/pow_exp.rs)",
                   "yuvxyb_math::expf (pow_exp.rs:108)", "yuvxyb_math::cbrtf / cbrtf_fast (yuvxyb-math/src/cbrtf.rs)",
                   "yuvxyb_math::multiply_add (mul_add.rs, non-FMA branch)"]
    p.bounds = ["totality: all 2^64 (x,y) of powf, all 2^32 x of expf and cbrtf - no unwinding needed (loop-free)",
                "expf saturation: every f32 in [89,1e38] and [-1e38,-88]"]
    p.outside = ["accuracy contracts of powf/expf/cbrtf against x^y, e^x, cbrt: transcendental / f64-Newton oracles are out of reach of bit-blasting (see DESIGN 5.C18)",
                 "FMA build (cargo kani compiles the non-FMA branch only)"]
    p.assumptions = ["Kani's checks of to_int_unchecked (float_to_int_unchecked precondition), shifts and casts stand for 'no UB'",
                     "Kani's NaN-production checks are ignored (producing NaN is not a violation)"]
    mk = lambda name, obl, sym, fn, args, **kw: dict(
        name=name, family="c18", obligation=obl, sym=sym, timeout=600, mem_gb=8, replay=replay, fn=fn, args=args, **kw)
    p.harnesses = [
        mk("k_c18_powf_total", "powf(x,y): no panic, no UB for every (x,y)", "x,y: all 2^64 f32 bit patterns", "powf",
           ["in_x", "in_y"], covers=["zero result reachable", "nan exponent explored", "huge result reachable"]),
        mk("k_c18_expf_total", "expf(x): no panic, no UB for every x", "x: all 2^32 bit patterns", "expf", ["in_x"],
           covers=["nan argument explored", "infinite argument explored", "zero result reachable"]),
        mk("k_c18_cbrtf_total", "cbrtf(x): no panic, no UB for every x", "x: all 2^32 bit patterns", "cbrtf", ["in_x"],
           covers=["nan argument explored", "negative result reachable"]),
        mk("k_c18_expf_saturates_high", "expf(x) == +inf on [89,1e38]", "x: every f32 in [89,1e38]", "expf", ["in_x"],
           covers=["large argument explored"]),
        mk("k_c18_expf_saturates_low", "expf(x) == 0 on [-1e38,-88]", "x: every f32 in [-1e38,-88]", "expf", ["in_x"],
           covers=["large negative argument explored"]),
        mk("k_c18_twin_must_fail", "vacuity twin", "x in [89,1e38]", "expf", ["in_x"], expect_fail="vacuity twin"),
    ]
    return p


MANIFEST = dict(
    technique="bounded model checking of the real code (Kani/CBMC, CaDiCaL) over all f32 bit patterns; Miri replay of UB counterexamples",
    text="Totality clause decided for the whole domain: powf over all 2^64 (x,y), expf and cbrtf over all 2^32 arguments (no panic, no failed "
         "float->int precondition, no overflow), and the expf saturation clauses on [89,1e38] and [-1e38,-88] for every f32. Accuracy clauses are "
         "decided only on reduced-precision grids (stated per harness); the rest of the accuracy quantifier is outside the claim.",
    note="Trusted: Kani MIR->GOTO, CBMC float bit-blasting, CaDiCaL. Non-FMA build only (cargo kani ignores target features). "
         "Accuracy vs transcendental oracles is not decidable by bit-blasting; bounded grids only.",
)
