"""C20 - build configuration: the feature-wiring clause (does --no-default-features really select libm?)."""
import os
from vlib.check import Plan
from vlib import engine, native
from vlib.engine import log

MOD = r'''
#[cfg(kani)]
#[allow(dead_code, unused_imports, clippy::all, clippy::pedantic, clippy::nursery)]
mod verif_c20 {
    use crate::*;
    #[kani::proof]
    fn k_c20_math_reach() {
        let in_x: f32 = kani::any(); let in_y: f32 = kani::any();
        kani::assume(in_x > 0.5 && in_x < 2.0 && in_y > 0.5 && in_y < 2.0);
        let a = yuvxyb_math::powf(in_x, in_y);
        let b = yuvxyb_math::expf(in_x);
        let c = yuvxyb_math::cbrtf(1.75);     // concrete: reachability does not need the f64 Newton circuit to be symbolic
        kani::cover!(a > 0.0 || b > 0.0 || c > 0.0 || true, "helpers called");
    }
}
'''
FAST_FUNCS = ("exp2", "log2", "cbrtf_fast", "poly")


def fast_reached(r):
    hit = []
    for fn, reached in r.reach.items():
        base = fn.split("::")[-1].split("<")[0]
        if reached and any(base.startswith(f) for f in FAST_FUNCS) and "yuvxyb_math" in fn:
            hit.append(fn)
    for f in r.failed:
        fn = f.get("function") or ""
        base = fn.split("::")[-1]
        if any(base.startswith(x) for x in FAST_FUNCS) and "yuvxyb_math" in fn:
            hit.append(fn)
    return sorted(set(hit))


def plan(tier, seed):
    """Two builds of the same harness: default features (fast kernels must be reachable: vacuity twin)
    and --no-default-features (no check inside exp2/log2/poly*/cbrtf_fast may be reachable)."""
    p = Plan()
    p.native = True
    p.modules.append(("src/lib.rs", MOD))
    p.harnesses = [dict(name="k_c20_math_reach", family="c20", timeout=600, mem_gb=8, replay=None, covers=["helpers called"],
                        obligation="default build: the fast kernels (exp2, log2, poly*, cbrtf_fast) are reachable from powf/expf/cbrtf (vacuity witness for the reachability oracle)",
                        sym="x,y in (0.5,2)", post=None)]

    def g(ctx):
        out = []
        r = ctx.results.get("k_c20_math_reach")
        base_hit = fast_reached(r) if r else []
        out.append({"name": "c20-default-build-reaches-fast-kernels", "status": "unsat" if base_hit else "unknown", "solver": "cbmc reachability checks",
                    "statement": "with default features the fast kernels are reachable: %s" % base_hit[:4], "time_s": 0.0,
                    "detail": "" if base_hit else "reachability oracle is blind: no fast kernel seen even in the default build"})
        # second build: --no-default-features, same overlay
        ov = ctx.ov
        try:
            metas, dt = engine.kani_codegen(ov, no_default_features=True, logname="codegen-nodefault.log")
        except engine.BuildError as e:
            out.append({"name": "c20-no-default-features-build", "status": "error", "detail": str(e)[-400:], "statement": "kani build with --no-default-features"})
            return out
        res = engine.run_all(ov, metas, [dict(name="k_c20_math_reach", timeout=600, mem_gb=8)], 1)["k_c20_math_reach"]
        hit = fast_reached(res)
        ctx.results["k_c20_math_reach(no-default-features)"] = res
        q = {"name": "c20-no-default-features-selects-libm", "solver": "cbmc reachability checks (--no-default-features build)", "time_s": round(res.wall, 1),
             "statement": "with --no-default-features no check inside exp2/log2/poly*/cbrtf_fast is reachable from powf/expf/cbrtf (the documented switch selects libm)"}
        if res.status in ("timeout", "oom", "error"):
            q["status"] = "unknown"
            q["detail"] = res.status + " " + res.detail
        elif hit:
            # replay natively: build the overlay without default features and compare with libm
            rep = native_check(ctx)
            q["status"] = "sat"
            q["model"] = "reachable fast kernels: %s" % hit[:6]
            q["replay"] = rep
        else:
            q["status"] = "unsat"
        out.append(q)
        return out
    p.glue = [g]
    p.functions = ["yuvxyb_math::powf / expf / cbrtf feature dispatch (cfg!(feature = \"fastmath\")) (yuvxyb-math/src/pow_exp.rs, cbrtf.rs)", "[features] / [dependencies] wiring in Cargo.toml and yuvxyb-math/Cargo.toml"]
    p.bounds = ["reachability over all x,y in (0.5,2) in two builds of the same harness (default features; --no-default-features)"]
    p.outside = ["every numeric clause of the non-fastmath build (libm powf/exp/cbrt are over-approximated or foreign functions in Kani)", "cross-build numeric agreement (same reason)",
                 "the FMA-on build: cargo kani ignores -Ctarget-feature=+fma, the mul_add branches are never compiled under Kani; all numeric lemmas of C01-C19 are statements about the non-FMA build",
                 "optimised vs checked build: Kani models the checked (overflow/debug assertion) build only"]
    p.assumptions = ["a reachable CBMC check located in exp2/log2/poly*/cbrtf_fast witnesses that the fast path is compiled in and taken"]
    return p


def native_check(ctx):
    """plain cargo, --no-default-features: is yuvxyb_math::powf bit-identical to libm on a few points?"""
    import subprocess
    nd = os.path.join(ctx.ov.root, "native")
    env = engine._env()
    env["RUSTFLAGS"] = "--cfg verif_native"
    # the native crate depends on yuvxyb with default features off for this build
    ct = open(os.path.join(nd, "Cargo.toml")).read()
    open(os.path.join(nd, "Cargo.toml"), "w").write(ct.replace('yuvxyb = { path = "../ov" }', 'yuvxyb = { path = "../ov", default-features = false }'))
    try:
        r = subprocess.run(["cargo", "build", "--offline"], cwd=nd, env=env, capture_output=True, text=True)
        if r.returncode != 0:
            return {"reproduced": None, "detail": "native --no-default-features build failed"}
        rc, so, se = native.call(os.path.join(nd, "target", "debug", "verif_native"), ["replay", "libm"])
        import json
        j = json.loads(so.strip().splitlines()[-1])
        return {"reproduced": bool(j.get("violates")), "detail": j.get("detail"), "kind": "libm", "args": []}
    except Exception as e:
        return {"reproduced": None, "detail": repr(e)}
    finally:
        open(os.path.join(nd, "Cargo.toml"), "w").write(ct)


MANIFEST = dict(
    technique="CBMC reachability checks over the real code compiled by Kani in two feature configurations (default; --no-default-features)",
    text="Only the feature-wiring clause is decided: in the --no-default-features build no check inside the fast kernels is reachable from powf/expf/cbrtf (the documented switch really selects libm), "
         "with the default build as a vacuity twin where they must be reachable. Found and fixed: F5 (the yuvxyb-math dependency kept its default fastmath feature).",
    note="All numeric clauses of the non-fastmath and FMA builds are outside the claim (libm is not modelled; cargo kani cannot compile the FMA branch).",
)
