"""C15 - Unspecified metadata is resolved deterministically; labels match content."""
from vlib.check import Plan
from vlib import native

MOD = r'''
#[cfg(kani)]
#[allow(dead_code, unused_imports, clippy::all, clippy::pedantic, clippy::nursery)]
mod verif_c15 {
    use crate::verif_common::*;
    use crate::*;

    // pure, argument-sensitive stand-ins (relational / label harnesses only)
    fn stub_powf(x: f32, y: f32) -> f32 { f32::from_bits(x.to_bits() ^ y.to_bits().rotate_left(7) ^ 0x5555_5555) }
    fn stub_expf(x: f32) -> f32 { f32::from_bits(x.to_bits().rotate_left(3) ^ 0x0F0F_0F0F) }
    fn stub_cbrtf(x: f32) -> f32 { f32::from_bits(x.to_bits().rotate_left(5) ^ 0x3333_3333) }
    /// unpadded stand-in for Plane::new (64-byte aligned rows cost 64 allocation-loop iterations per plane and conversion;
    /// plane padding is irrelevant to the label==content clause, layout independence is C11)
    fn stub_plane_new<T: Pixel>(width: usize, height: usize, xdec: usize, ydec: usize, _xpad: usize, _ypad: usize) -> Plane<T> {
        let buf = [T::cast_from(128u8); 1];
        kani::assume(width == 1 && height == 1);
        let mut p = Plane::from_slice(&buf, 1);
        p.cfg.xdec = xdec; p.cfg.ydec = ydec;
        p
    }

    fn any_meta_u() -> (MC, CP, TC, u8, u8, u8) {
        let in_m: u8 = kani::any(); let in_p: u8 = kani::any(); let in_t: u8 = kani::any();
        let (m, p, t) = (in_m, in_p, in_t);
        kani::assume(m < 15 && p < 14 && t < 19);
        (MC_ALL[m as usize], CP_ALL[p as usize], TC_ALL[t as usize], m, p, t)
    }
    // the documented mpv heuristic, written from the property text
    fn want_matrix(mc: MC, w: usize, h: usize) -> MC {
        if mc != MC::Unspecified { mc } else if w >= 1280 || h > 576 { MC::BT709 } else if h == 576 { MC::BT470BG } else { MC::ST170M }
    }
    fn want_primaries(cp: CP, resolved_mc: MC, w: usize, h: usize) -> CP {
        if cp != CP::Unspecified { cp }
        else if resolved_mc == MC::BT2020NonConstantLuminance || resolved_mc == MC::BT2020ConstantLuminance { CP::BT2020 }
        else if resolved_mc == MC::BT709 || w >= 1280 || h > 576 { CP::BT709 }
        else if h == 576 { CP::BT470BG }
        else if h == 480 || h == 488 { CP::ST170M }
        else { CP::BT709 }
    }

    #[kani::proof]
    #[kani::unwind(4)]
    fn k_c15_yuv_resolution() {
        let (mc, cp, tc, in_m, in_p, in_t) = any_meta_u();
        let in_w: usize = kani::any(); let in_h: usize = kani::any();
        let in_bd: u8 = kani::any(); kani::assume(in_bd >= 8 && in_bd <= 16);
        let in_full: bool = kani::any();
        let mut f: Frame<u8> = Frame { planes: [Plane::from_slice(&[1u8], 1), Plane::from_slice(&[2u8], 1), Plane::from_slice(&[3u8], 1)] };
        // u8 storage never scans samples: the declared size can be any usize pair
        for p in 0..3 { f.planes[p].cfg.width = in_w; f.planes[p].cfg.height = in_h; }
        let c = YuvConfig { bit_depth: in_bd, subsampling_x: 0, subsampling_y: 0, full_range: in_full, matrix_coefficients: mc,
            transfer_characteristics: tc, color_primaries: cp };
        let y = Yuv::new(f, c).unwrap();
        let r = y.config();
        let wm = want_matrix(mc, in_w, in_h);
        assert!(r.matrix_coefficients != MC::Unspecified && r.color_primaries != CP::Unspecified && r.transfer_characteristics != TC::Unspecified, "never reports Unspecified");
        assert!(r.matrix_coefficients == wm, "matrix resolved by the documented heuristic");
        assert!(r.color_primaries == want_primaries(cp, wm, in_w, in_h), "primaries resolved by the documented heuristic");
        assert!(r.transfer_characteristics == (if tc == TC::Unspecified { TC::BT1886 } else { tc }), "transfer resolved to BT.1886");
        assert!(r.bit_depth == in_bd && r.full_range == in_full && r.subsampling_x == 0 && r.subsampling_y == 0, "other fields untouched");
        assert!(y.width() == in_w && y.height() == in_h, "dimensions verbatim");
        kani::cover!(mc == MC::Unspecified && in_h == 576 && in_w < 1280, "576-line guess explored");
        kani::cover!(cp == CP::Unspecified && in_h == 488 && mc == MC::ST240M, "488-line primaries guess explored");
        kani::cover!(mc == MC::Unspecified && cp == CP::Unspecified && tc == TC::Unspecified && in_w >= 1280, "all three unspecified at HD size");
    }

    #[kani::proof]
    #[kani::unwind(5)]
    fn k_c15_rgb_new_resolution() {
        let (_, cp, tc, _, in_p, in_t) = any_meta_u();
        let in_w: usize = kani::any(); let in_h: usize = kani::any();
        kani::assume((in_w == 1 && in_h == 1) || (in_w == 0 && in_h == 0) || (in_w == 1 && in_h == 0));
        let r = Rgb::new(vec![[0.25, 0.5, 0.75]], in_w, in_h, tc, cp);
        if let Ok(r) = r {
            assert!(r.transfer() == (if tc == TC::Unspecified { TC::SRGB } else { tc }), "Rgb::new: transfer resolved to sRGB");
            assert!(r.primaries() == (if cp == CP::Unspecified { CP::BT709 } else { cp }), "Rgb::new: primaries resolved to BT.709");
            kani::cover!(tc == TC::Unspecified && cp == CP::Unspecified, "both unspecified");
        }
    }
    fn rgb_label(in_p: u8, in_t: u8) {
        // transfer and primaries concrete per instance (a symbolic transfer keeps all 19 in-place curve loops in one query: 6-12 min).
        // ln/log10 are over-approximated by Kani (each call returns an arbitrary value): Log100/Log316/HLG are not instantiated
        let tc = TC_ALL[in_t as usize];
        let cp = CP_ALL[in_p as usize];
        let q = Rgb::try_from((LinearRgb::new(vec![[0.25, 0.5, 0.75]], 1, 1).unwrap(), tc, cp));
        if let Ok(q) = q {
            assert!(q.transfer() == (if tc == TC::Unspecified { TC::SRGB } else { tc }) && q.primaries() == (if cp == CP::Unspecified { CP::BT709 } else { cp }),
                "linear->RGB: labels resolved to sRGB / BT.709");
            // label == content: converting with the stored labels gives the same pixels
            let q2 = Rgb::try_from((LinearRgb::new(vec![[0.25, 0.5, 0.75]], 1, 1).unwrap(), q.transfer(), q.primaries())).unwrap();
            for k in 0..3 { assert!(q.data()[0][k].to_bits() == q2.data()[0][k].to_bits(), "linear->RGB: stored labels describe the encoding applied"); }
            kani::cover!(true, "conversion succeeded");
        }
    }
@RGBLABEL@
    fn label_content<const FROM_XYB: bool>(in_p: u8, in_t: u8) {
        // transfer and primaries are concrete per instance (their curves/matrices fold to constants); the pixel is symbolic
        let tc = TC_ALL[in_t as usize];
        // an Unspecified matrix makes the conversion fail (UnspecifiedMatrixCoefficients), so the clause is vacuous
        // for it; the matrix stage sees the same config on both sides, one standard matrix is representative
        let in_m: u8 = 1; let mc = MC::BT709;
        let cp = CP_ALL[in_p as usize];
        kani::assume(!matches!(tc, TC::Logarithmic100 | TC::Logarithmic316 | TC::HybridLogGamma));
        kani::assume(mc == MC::Unspecified || cp == CP::Unspecified || tc == TC::Unspecified);
        // in-gamut pixels on the fixed-point grid k/64 (two copies of full-width float multipliers on identical inputs are not
        // provably equal for SAT in reasonable time; the clause is structural)
        let in_kr: u8 = kani::any(); let in_kg: u8 = kani::any(); let in_kb: u8 = kani::any();
        kani::assume(in_kr <= 64 && in_kg <= 64 && in_kb <= 64);
        let (in_r, in_g, in_b) = ((in_kr as f32) * 0.015625, (in_kg as f32) * 0.015625, (in_kb as f32) * 0.015625);
        let c = YuvConfig { bit_depth: 8, subsampling_x: 0, subsampling_y: 0, full_range: kani::any(), matrix_coefficients: mc,
            transfer_characteristics: tc, color_primaries: cp };
        let px = vec![[in_r, in_g, in_b]];
        let (o1, o2);
        if FROM_XYB {
            let a = Yuv::<u8>::try_from((Xyb::new(px.clone(), 1, 1).unwrap(), c));
            if a.is_err() { return; }
            let a = a.unwrap();
            o2 = Yuv::<u8>::try_from((Xyb::new(px, 1, 1).unwrap(), a.config())); o1 = a;
        } else {
            let a = Yuv::<u8>::try_from((LinearRgb::new(px.clone(), 1, 1).unwrap(), c));
            if a.is_err() { return; }
            let a = a.unwrap();
            o2 = Yuv::<u8>::try_from((LinearRgb::new(px, 1, 1).unwrap(), a.config())); o1 = a;
        }
        kani::cover!(true, "conversion with Unspecified fields succeeded");
        let l = o1.config();
        assert!(l.matrix_coefficients != MC::Unspecified && l.color_primaries != CP::Unspecified && l.transfer_characteristics != TC::Unspecified, "never reports Unspecified");
        assert!(o2.is_ok(), "the stored config is itself convertible");
        let o2 = o2.unwrap();
        for k in 0..3 { assert!(o1.data()[k].p(0, 0) == o2.data()[k].p(0, 0), "stored config describes the encoding actually applied"); }
    }
@LABEL@
    // ---- label == content for every image size, observed at the interface between the stages instead of on pixels:
    // the primaries the gamut stage is asked to convert to must be the primaries the output is labelled with.  The image has
    // zero columns (so no pixel work at all) and a symbolic number of lines.
    static mut SEEN_OUT_PRIMARIES: u8 = 255;
    fn stub_transform_primaries(input: Vec<[f32; 3]>, _in_p: CP, out_p: CP) -> Result<Vec<[f32; 3]>, ConversionError> {
        unsafe { SEEN_OUT_PRIMARIES = cp_idx(out_p); }
        Ok(input)
    }
    fn stub_plane_new0<T: Pixel>(width: usize, height: usize, xdec: usize, ydec: usize, _xpad: usize, _ypad: usize) -> Plane<T> {
        let buf = [T::cast_from(128u8); 1];
        let mut p = Plane::from_slice(&buf, 1);
        p.cfg.width = width; p.cfg.height = height; p.cfg.xdec = xdec; p.cfg.ydec = ydec;
        p
    }
    fn encode_primaries_match_label(w: usize, h: usize) {
        let in_m: u8 = kani::any(); kani::assume(in_m < 15);
        let mc = MC_ALL[in_m as usize];
        kani::assume(matches!(mc, MC::BT709 | MC::BT470M | MC::BT470BG | MC::ST170M | MC::ST240M | MC::BT2020NonConstantLuminance | MC::YCgCo));
        let c = YuvConfig { bit_depth: 8, subsampling_x: 0, subsampling_y: 0, full_range: false, matrix_coefficients: mc,
            transfer_characteristics: TC::Linear, color_primaries: CP::Unspecified };
        let o = Yuv::<u8>::try_from((LinearRgb::new(Vec::new(), w, h).unwrap(), c)).unwrap();
        let label = o.config().color_primaries;
        let used = unsafe { SEEN_OUT_PRIMARIES };
        assert!(label != CP::Unspecified, "never reports Unspecified");
        assert!(used == cp_idx(label), "the gamut stage converts to the primaries the output is labelled with, at every image size");
        assert!(o.width() == w && o.height() == h, "dimensions preserved");
    }
    /// w x 0 images, every width 1..=1300: no loop iterations at all; a transposed size would be seen as (0, w) and hit the 480/488/576-line guesses
    #[kani::proof]
    #[kani::unwind(5)]
    #[kani::stub(crate::yuv_rgb::color::transform_primaries, stub_transform_primaries)]
    #[kani::stub(v_frame::plane::Plane::new, stub_plane_new0)]
    #[kani::stub(yuvxyb_math::matrix::Matrix::invert, yuvxyb_math::matrix::verif_stub_invert)]
    fn k_c15_encode_primaries_match_label_wx0() {
        let in_w: usize = kani::any();
        kani::assume(in_w >= 1 && in_w <= 1300);
        encode_primaries_match_label(in_w, 0);
        kani::cover!(in_w == 480, "width 480 explored");
        kani::cover!(in_w == 1280, "width 1280 explored");
    }
    /// 0 x h images, every height 1..=600 (the 480/488/576-line guesses in the right orientation): 600 iterations of the row loop
    #[kani::proof]
    #[kani::unwind(5)]
    #[kani::stub(crate::yuv_rgb::color::transform_primaries, stub_transform_primaries)]
    #[kani::stub(v_frame::plane::Plane::new, stub_plane_new0)]
    #[kani::stub(yuvxyb_math::matrix::Matrix::invert, yuvxyb_math::matrix::verif_stub_invert)]
    fn k_c15_encode_primaries_match_label() {
        let in_h: usize = kani::any();
        kani::assume(in_h >= 1 && in_h <= 600);
        encode_primaries_match_label(0, in_h);
        kani::cover!(in_h == 480, "480-line guess explored");
        kani::cover!(in_h == 576, "576-line guess explored");
    }
    /// label == content where the size heuristic depends on the orientation: a 1x480 image (concrete pixels: the solver's job here is
    /// the symbolic execution of the real resolution logic at a real 480-line size, not a search over pixels)
    #[kani::proof]
    #[kani::unwind(483)]
    #[kani::stub(yuvxyb_math::pow_exp::powf, stub_powf)]
    #[kani::stub(yuvxyb_math::pow_exp::expf, stub_expf)]
    #[kani::stub(v_frame::plane::Plane::new, stub_plane_new)]
    #[kani::stub(yuvxyb_math::matrix::Matrix::mul_arr, yuvxyb_math::matrix::verif_stub_mul_arr)]
    #[kani::stub(yuvxyb_math::matrix::Matrix::invert, yuvxyb_math::matrix::verif_stub_invert)]
    fn k_c15_label_content_1x480() {
        let in_sw: bool = kani::any();       // 1x480 or 480x1
        let (w, h) = if in_sw { (1usize, 480usize) } else { (480usize, 1usize) };
        let c = YuvConfig { bit_depth: 8, subsampling_x: 0, subsampling_y: 0, full_range: false, matrix_coefficients: MC::ST170M,
            transfer_characteristics: TC::Linear, color_primaries: CP::Unspecified };     // Linear: no per-pixel curve loop (480 pixels)
        let o1 = Yuv::<u8>::try_from((LinearRgb::new(vec![[0.25, 0.5, 0.75]; 480], w, h).unwrap(), c)).unwrap();
        let l = o1.config();
        assert!(l.color_primaries == (if h == 480 { CP::ST170M } else { CP::BT709 }), "primaries guessed from the real orientation");
        let o2 = Yuv::<u8>::try_from((LinearRgb::new(vec![[0.25, 0.5, 0.75]; 480], w, h).unwrap(), l)).unwrap();
        for k in 0..3 { assert!(o1.data()[k].p(0, 0) == o2.data()[k].p(0, 0), "stored config describes the encoding actually applied (480-line image)"); }
        assert!(o1.width() == w && o1.height() == h, "dimensions preserved");
    }
}
'''


def replay(ctx, spec, f):
    ins = {k: int(v["bin"], 2) for k, v in (f.get("inputs") or {}).items()}
    w = spec["what"]
    if w == "yuvres":
        need = ["in_m", "in_p", "in_t", "in_w", "in_h"]
        if any(k not in ins for k in need):
            return {"reproduced": None, "detail": "inputs not found in trace"}
        return native.replay_native(ctx, "unspec", ["yuvres"] + [ins[k] for k in need])
    if w == "label480":
        return native.replay_native(ctx, "unspec", ["label480"], both_profiles=False)
    if w == "rgbres":
        if "_p" in spec["name"] and spec["name"].rsplit("_p", 1)[1].isdigit():
            ins["in_p"] = int(spec["name"].rsplit("_p", 1)[1])
        if "tfix" in spec:
            ins["in_t"] = spec["tfix"]
            import re as _re
            ins["in_p"] = int(_re.search(r"_p(\d+)", spec["name"]).group(1))
        if any(k not in ins for k in ("in_p", "in_t")):
            return {"reproduced": None, "detail": "inputs not found in trace"}
        return native.replay_native(ctx, "unspec", ["rgbres", ins["in_p"], ins["in_t"]])
    if "pre" in spec:
        ins["in_p"] = int(spec["pre"][0])
        ins["in_t"] = int(spec["pre"][1])
        ins.setdefault("in_m", 1)
    import struct as _st
    for k in ("r", "g", "b"):
        if "in_k" + k in ins:
            ins["in_" + k] = _st.unpack("<I", _st.pack("<f", ins["in_k" + k] / 64.0))[0]
    need = ["in_m", "in_p", "in_t", "in_r", "in_g", "in_b"]
    if any(k not in ins for k in need):
        return {"reproduced": None, "detail": "inputs not found in trace"}
    # the solver's pixel first; the stand-in curves make every pixel a witness, the real curves differ most in the mid-tones,
    # so the same metadata is also replayed on two fixed in-gamut probe pixels (replay only confirms, it never decides)
    import struct
    fb = lambda v: "%x" % struct.unpack("<I", struct.pack("<f", v))[0]
    tries = [["%x" % ins["in_r"], "%x" % ins["in_g"], "%x" % ins["in_b"]], [fb(0.2)] * 3, [fb(0.1), fb(0.3), fb(0.5)]]
    last = None
    for px in tries:
        last = native.replay_native(ctx, "unspec", [w, ins["in_m"], ins["in_p"], ins["in_t"]] + px, both_profiles=False)
        if last.get("reproduced"):
            return last
    return last


def plan(tier, seed):
    p = Plan()
    p.stubbing = True
    import os
    here = os.path.dirname(__file__)
    p.modules.append(("yuvxyb-math/src/matrix.rs", open(os.path.join(here, "..", "harness", "math_stub.rs")).read()))
    p.modules.append(("yuvxyb-math/src/lib.rs", open(os.path.join(here, "..", "harness", "math_stub_lib.rs")).read()))
    thorough = tier == "thorough"
    stubs = "    #[kani::stub(yuvxyb_math::pow_exp::powf, stub_powf)]\n    #[kani::stub(yuvxyb_math::pow_exp::expf, stub_expf)]\n"
    pstub = ("    #[kani::stub(v_frame::plane::Plane::new, stub_plane_new)]\n    #[kani::stub(yuvxyb_math::matrix::Matrix::mul_arr, yuvxyb_math::matrix::verif_stub_mul_arr)]\n"
             "    #[kani::stub(yuvxyb_math::matrix::Matrix::invert, yuvxyb_math::matrix::verif_stub_invert)]\n")
    rl, lb = "", ""
    hs = [
        dict(name="k_c15_yuv_resolution", what="yuvres", timeout=900, mem_gb=10,
             obligation="Yuv::new never reports Unspecified; matrix/primaries/transfer are the documented mpv heuristic, a pure function of config and dimensions",
             sym="width, height: ALL usize values; matrix/primaries/transfer: every enum value incl. Unspecified (all 8 subsets); depth 8..16; range",
             covers=["576-line guess explored", "488-line primaries guess explored", "all three unspecified at HD size"]),
        dict(name="k_c15_rgb_new_resolution", what="rgbres", timeout=900, mem_gb=10,
             obligation="Rgb::new resolves Unspecified transfer/primaries to sRGB / BT.709 and keeps specified ones",
             sym="transfer, primaries over every enum value incl. Unspecified", covers=["both unspecified"]),
    ]
    # primaries are instantiated concretely (one harness per value) so that the gamut matrices fold to constants
    tcs = [t for t in range(19) if t not in (9, 10, 18)]
    for cp in ([2, 9] if not thorough else [2, 1, 9, 4, 10]):
        for t in (tcs if (thorough or cp == 2) else [2, 1, 13]):
            rl += "    #[kani::proof]\n    #[kani::unwind(5)]\n" + stubs + "    fn k_c15_rgb_label_p%d_t%d() { rgb_label(%d, %d) }\n" % (cp, t, cp, t)
            hs.append(dict(name="k_c15_rgb_label_p%d_t%d" % (cp, t), what="rgbres", timeout=900, mem_gb=10, tfix=t,
                           obligation="linear->RGB resolves Unspecified to sRGB / BT.709 and the stored labels describe the encoding applied [primaries index %d, transfer index %d]" % (cp, t),
                           sym="none beyond the instance (transfer and primaries are the quantified objects: one instance per value)", covers=[] if t in (0, 3, 12, 17) else ["conversion succeeded"]))
    combos = [(2, 2), (2, 1), (1, 2), (2, 9), (13, 2)] if not thorough else [(t, c) for t in (2, 1, 13, 16, 8) for c in (2, 1, 9, 5)]
    combos = [tc for tc in combos if 2 in tc]
    for (tcx, cp) in combos:
        lb += "    #[kani::proof]\n    #[kani::unwind(5)]\n" + stubs + pstub + "    fn k_c15_label_content_linear_t%d_p%d() { label_content::<false>(%d, %d) }\n" % (tcx, cp, cp, tcx)
        hs.append(dict(name="k_c15_label_content_linear_t%d_p%d" % (tcx, cp), what="label", timeout=1800, mem_gb=16, tcx=tcx,
                       obligation="linear RGB -> YUV with Unspecified fields: re-encoding under the stored config gives bit-identical planes (label == content) [primaries index %d]" % cp,
                       sym="pixel on the fixed-point grid k/64 in [0,1]^3 (65^3 pixels, symbolic); (transfer, primaries) concrete per instance with at least one Unspecified; matrix BT.709; range symbolic; 1x1 8-bit",
                       covers=["conversion with Unspecified fields succeeded"]))
    if thorough:
        for cp in (2, 1):
            lb += "    #[kani::proof]\n    #[kani::unwind(5)]\n" + stubs + pstub + "    #[kani::stub(yuvxyb_math::cbrtf::cbrtf, stub_cbrtf)]\n    fn k_c15_label_content_xyb_t2_p%d() { label_content::<true>(%d, 2) }\n" % (cp, cp)
            hs.append(dict(name="k_c15_label_content_xyb_t2_p%d" % cp, what="labelx", timeout=2400, mem_gb=16, tcx=2,
                           obligation="XYB -> YUV with Unspecified fields: label == content [primaries index %d]" % cp, sym="as above, source XYB",
                           covers=["conversion with Unspecified fields succeeded"]))
    hs.append(dict(name="k_c15_encode_primaries_match_label_wx0", what="label480", timeout=900, mem_gb=12,
                   obligation="linear RGB -> YUV with Unspecified primaries: the primaries handed to the gamut stage equal the primaries stored in the output, for every w x 0 image, w in 1..=1300 (stage-interface observation; a transposed size shows as a 480/488/576-line guess)",
                   sym="image width: every value in 1..=1300; matrix: symbolic over the 7 standard ones; height 0", covers=["width 480 explored", "width 1280 explored"]))
    if thorough:
      hs.append(dict(name="k_c15_encode_primaries_match_label", what="label480", timeout=3000, mem_gb=16, unwind_rules=[(r"ypbpr_to_ycbcr", 602)],
                   obligation="linear RGB -> YUV with Unspecified primaries: the primaries handed to the gamut stage equal the primaries stored in the output, for every image height 1..600 (observed at the stage interface on a zero-column image, so no pixel work is needed)",
                   sym="image height: every value in 1..=600 (covers the 480/488/576 thresholds); matrix: symbolic over the 7 standard ones; width 0",
                     covers=["480-line guess explored", "576-line guess explored"]))
    if thorough:
      hs.append(dict(name="k_c15_label_content_1x480", what="label480", timeout=10800, mem_gb=24,
                   obligation="label == content on a 1x480 / 480x1 image (where the primaries guess depends on which dimension is the height): re-encoding under the stored config gives identical samples; guessed primaries follow the real orientation",
                   sym="orientation symbolic (1x480 or 480x1); pixels concrete; matrix ST 170M, primaries Unspecified", covers=[]))
    p.modules.append(("src/lib.rs", MOD.replace("@RGBLABEL@", rl).replace("@LABEL@", lb)))
    for h in hs:
        h.update(family="c15", replay=replay)
    for h in hs:
        if h["what"] in ("label", "labelx"):
            h["pre"] = [h["name"].rsplit("_p", 1)[1], h["tcx"]]
    p.harnesses = hs
    p.functions = ["Yuv::new, YuvConfig::fix_unspecified_data, guess_matrix_coefficients, guess_color_primaries (src/yuv.rs)", "Rgb::new, TryFrom<(LinearRgb,TC,CP)> for Rgb (src/rgb.rs)",
                   "TryFrom<(LinearRgb,YuvConfig)> / TryFrom<(Xyb,YuvConfig)> for Yuv (src/yuv.rs)"]
    p.bounds = ["resolution clause: all usize dimensions (no bound); label==content clause: 1x1 images only, where the size heuristic picks ST 170M / BT.709"]
    p.outside = ["label==content with an explicitly specified Log100 / Log316 / HLG transfer (ln/log10 are over-approximated by Kani; Unspecified never resolves to them)", "label==content at 576/480/488-line and HD sizes (would need frames that large; the resolution clause covers the labels there)",
                 "numeric closeness of decode(output) to the input (C09 budget): the relational harness proves the stronger bit-identity of re-encoding, with powf/expf/cbrtf as pure stand-ins"]
    p.assumptions = ["log::warn! is inert (max level Off)", "Plane::new replaced by an unpadded 1x1 plane in the label harnesses (padding is irrelevant to the clause)", "powf/expf/cbrtf replaced by pure argument-sensitive stand-ins in the label harnesses (equal arguments => equal results is all that is used)"]
    return p


MANIFEST = dict(
    technique="bounded model checking of the real constructors/conversions (Kani/CBMC): all usize dimensions and every enum value symbolic; relational re-encoding harness for label==content",
    text="The resolution clause is decided with no bound on width/height (symbolic usize) for every metadata value and Unspecified subset against the mpv table written from the property text; "
         "the label==content clause as a relational solver query (convert, then convert again under the stored config: bit-identical) for every float pixel at 1x1.",
    note="Label==content only at 1x1; powf/expf/cbrtf stubbed by pure stand-ins there. F4 (Unspecified transfer/primaries encoded as sRGB/BT.709 but labelled BT.1886/guessed) was found by this harness and fixed.",
)
