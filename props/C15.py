"""C15 - Unspecified metadata is resolved deterministically; labels match content."""
from vlib.check import Plan
from vlib import native

MOD = r'''
#[cfg(kani)]
#[allow(dead_code, unused_imports, clippy::all, clippy::pedantic, clippy::nursery)]
mod verif_c15 {
    use crate::verif_common::*;
    use crate::*;

    // pure, argument-sensitive stand-ins (relational / label harnesses only)
    fn stub_powf(x: f32, y: f32) -> f32 { x * y + 1.0 }
    fn stub_expf(x: f32) -> f32 { x + x + 1.0 }
    fn stub_cbrtf(x: f32) -> f32 { x * 0.5 + 0.25 }

    fn any_meta_u() -> (MC, CP, TC, u8, u8, u8) {
        let m: u8 = kani::any(); let p: u8 = kani::any(); let t: u8 = kani::any();
        kani::assume(m < 15 && p < 14 && t < 19);
        (MC_ALL[m as usize], CP_ALL[p as usize], TC_ALL[t as usize], m, p, t)
    }
    // the documented mpv heuristic, written from the property text
    fn want_matrix(mc: MC, w: usize, h: usize) -> MC {
        if mc != MC::Unspecified { mc } else if w >= 1280 || h > 576 { MC::BT709 } else if h == 576 { MC::BT470BG } else { MC::ST170M }
    }
    fn want_primaries(cp: CP, resolved_mc: MC, w: usize, h: usize) -> CP {
        if cp != CP::Unspecified { cp }
        else if resolved_mc == MC::BT2020NonConstantLuminance || resolved_mc == MC::BT2020ConstantLuminance { CP::BT2020 }
        else if resolved_mc == MC::BT709 || w >= 1280 || h > 576 { CP::BT709 }
        else if h == 576 { CP::BT470BG }
        else if h == 480 || h == 488 { CP::ST170M }
        else { CP::BT709 }
    }

    #[kani::proof]
    #[kani::unwind(4)]
    fn k_c15_yuv_resolution() {
        let (mc, cp, tc, in_m, in_p, in_t) = any_meta_u();
        let in_w: usize = kani::any(); let in_h: usize = kani::any();
        let in_bd: u8 = kani::any(); kani::assume(in_bd >= 8 && in_bd <= 16);
        let in_full: bool = kani::any();
        let mut f: Frame<u8> = Frame { planes: [Plane::from_slice(&[1u8], 1), Plane::from_slice(&[2u8], 1), Plane::from_slice(&[3u8], 1)] };
        // u8 storage never scans samples: the declared size can be any usize pair
        for p in 0..3 { f.planes[p].cfg.width = in_w; f.planes[p].cfg.height = in_h; }
        let c = YuvConfig { bit_depth: in_bd, subsampling_x: 0, subsampling_y: 0, full_range: in_full, matrix_coefficients: mc,
            transfer_characteristics: tc, color_primaries: cp };
        let y = Yuv::new(f, c).unwrap();
        let r = y.config();
        let wm = want_matrix(mc, in_w, in_h);
        assert!(r.matrix_coefficients != MC::Unspecified && r.color_primaries != CP::Unspecified && r.transfer_characteristics != TC::Unspecified, "never reports Unspecified");
        assert!(r.matrix_coefficients == wm, "matrix resolved by the documented heuristic");
        assert!(r.color_primaries == want_primaries(cp, wm, in_w, in_h), "primaries resolved by the documented heuristic");
        assert!(r.transfer_characteristics == (if tc == TC::Unspecified { TC::BT1886 } else { tc }), "transfer resolved to BT.1886");
        assert!(r.bit_depth == in_bd && r.full_range == in_full && r.subsampling_x == 0 && r.subsampling_y == 0, "other fields untouched");
        assert!(y.width() == in_w && y.height() == in_h, "dimensions verbatim");
        kani::cover!(mc == MC::Unspecified && in_h == 576 && in_w < 1280, "576-line guess explored");
        kani::cover!(cp == CP::Unspecified && in_h == 488 && mc == MC::ST240M, "488-line primaries guess explored");
        kani::cover!(mc == MC::Unspecified && cp == CP::Unspecified && tc == TC::Unspecified && in_w >= 1280, "all three unspecified at HD size");
    }

    #[kani::proof]
    #[kani::unwind(5)]
    #[kani::stub(yuvxyb_math::pow_exp::powf, stub_powf)]
    #[kani::stub(yuvxyb_math::pow_exp::expf, stub_expf)]
    fn k_c15_rgb_resolution() {
        let (_, cp, tc, _, in_p, in_t) = any_meta_u();
        let in_w: usize = kani::any(); let in_h: usize = kani::any();
        kani::assume(in_w.checked_mul(in_h) == Some(1));
        let r = Rgb::new(vec![[0.25, 0.5, 0.75]], in_w, in_h, tc, cp).unwrap();
        assert!(r.transfer() == (if tc == TC::Unspecified { TC::SRGB } else { tc }), "Rgb::new: transfer resolved to sRGB");
        assert!(r.primaries() == (if cp == CP::Unspecified { CP::BT709 } else { cp }), "Rgb::new: primaries resolved to BT.709");
        let q = Rgb::try_from((LinearRgb::new(vec![[0.25, 0.5, 0.75]], 1, 1).unwrap(), tc, cp));
        if let Ok(q) = q {
            assert!(q.transfer() == (if tc == TC::Unspecified { TC::SRGB } else { tc }) && q.primaries() == (if cp == CP::Unspecified { CP::BT709 } else { cp }),
                "linear->RGB: labels resolved to sRGB / BT.709");
            // label == content: converting with the stored labels gives the same pixels
            let q2 = Rgb::try_from((LinearRgb::new(vec![[0.25, 0.5, 0.75]], 1, 1).unwrap(), q.transfer(), q.primaries())).unwrap();
            for k in 0..3 { assert!(q.data()[0][k].to_bits() == q2.data()[0][k].to_bits(), "linear->RGB: stored labels describe the encoding applied"); }
            kani::cover!(tc == TC::Unspecified && cp == CP::Unspecified, "both unspecified");
        }
    }

    fn label_content<const FROM_XYB: bool>() {
        let (mc, cp, tc, in_m, in_p, in_t) = any_meta_u();
        kani::assume(mc == MC::Unspecified || cp == CP::Unspecified || tc == TC::Unspecified);
        let in_r: f32 = kani::any(); let in_g: f32 = kani::any(); let in_b: f32 = kani::any();
        let in_bd: u8 = kani::any(); kani::assume(in_bd >= 8 && in_bd <= 16);
        let c = YuvConfig { bit_depth: 8, subsampling_x: 0, subsampling_y: 0, full_range: kani::any(), matrix_coefficients: mc,
            transfer_characteristics: tc, color_primaries: cp };
        let px = vec![[in_r, in_g, in_b]];
        let (o1, o2);
        if FROM_XYB {
            let a = Yuv::<u8>::try_from((Xyb::new(px.clone(), 1, 1).unwrap(), c));
            if a.is_err() { return; }
            let a = a.unwrap();
            o2 = Yuv::<u8>::try_from((Xyb::new(px, 1, 1).unwrap(), a.config())); o1 = a;
        } else {
            let a = Yuv::<u8>::try_from((LinearRgb::new(px.clone(), 1, 1).unwrap(), c));
            if a.is_err() { return; }
            let a = a.unwrap();
            o2 = Yuv::<u8>::try_from((LinearRgb::new(px, 1, 1).unwrap(), a.config())); o1 = a;
        }
        kani::cover!(true, "conversion with Unspecified fields succeeded");
        kani::cover!(tc == TC::Unspecified, "Unspecified transfer explored");
        let l = o1.config();
        assert!(l.matrix_coefficients != MC::Unspecified && l.color_primaries != CP::Unspecified && l.transfer_characteristics != TC::Unspecified, "never reports Unspecified");
        assert!(o2.is_ok(), "the stored config is itself convertible");
        let o2 = o2.unwrap();
        for k in 0..3 { assert!(o1.data()[k].p(0, 0) == o2.data()[k].p(0, 0), "stored config describes the encoding actually applied"); }
    }
    #[kani::proof]
    #[kani::unwind(66)]
    #[kani::stub(yuvxyb_math::pow_exp::powf, stub_powf)]
    #[kani::stub(yuvxyb_math::pow_exp::expf, stub_expf)]
    fn k_c15_label_content_linear() { label_content::<false>() }
    #[kani::proof]
    #[kani::unwind(66)]
    #[kani::stub(yuvxyb_math::pow_exp::powf, stub_powf)]
    #[kani::stub(yuvxyb_math::pow_exp::expf, stub_expf)]
    #[kani::stub(yuvxyb_math::cbrtf::cbrtf, stub_cbrtf)]
    fn k_c15_label_content_xyb() { label_content::<true>() }
}
'''


def replay(ctx, spec, f):
    ins = {k: int(v["bin"], 2) for k, v in (f.get("inputs") or {}).items()}
    w = spec["what"]
    if w == "yuvres":
        need = ["in_m", "in_p", "in_t", "in_w", "in_h"]
        if any(k not in ins for k in need):
            return {"reproduced": None, "detail": "inputs not found in trace"}
        return native.replay_native(ctx, "unspec", ["yuvres"] + [ins[k] for k in need])
    if w == "rgbres":
        if any(k not in ins for k in ("in_p", "in_t")):
            return {"reproduced": None, "detail": "inputs not found in trace"}
        return native.replay_native(ctx, "unspec", ["rgbres", ins["in_p"], ins["in_t"]])
    need = ["in_m", "in_p", "in_t", "in_r", "in_g", "in_b"]
    if any(k not in ins for k in need):
        return {"reproduced": None, "detail": "inputs not found in trace"}
    return native.replay_native(ctx, "unspec", [w, ins["in_m"], ins["in_p"], ins["in_t"], "%x" % ins["in_r"], "%x" % ins["in_g"], "%x" % ins["in_b"]])


def plan(tier, seed):
    p = Plan()
    p.stubbing = True
    p.modules.append(("src/lib.rs", MOD))
    hs = [
        dict(name="k_c15_yuv_resolution", what="yuvres", timeout=900, mem_gb=10,
             obligation="Yuv::new never reports Unspecified; matrix/primaries/transfer are the documented mpv heuristic, a pure function of config and dimensions",
             sym="width, height: ALL usize values; matrix/primaries/transfer: every enum value incl. Unspecified (all 8 subsets); depth 8..16; range",
             covers=["576-line guess explored", "488-line primaries guess explored", "all three unspecified at HD size"]),
        dict(name="k_c15_rgb_resolution", what="rgbres", timeout=900, mem_gb=10,
             obligation="Rgb::new and linear->RGB resolve Unspecified to sRGB / BT.709 and the stored labels describe the encoding applied",
             sym="transfer, primaries over every enum value incl. Unspecified; (w,h) any pair with w*h==1", covers=["both unspecified"]),
        dict(name="k_c15_label_content_linear", what="label", timeout=1800, mem_gb=14,
             obligation="linear RGB -> YUV with Unspecified fields: re-encoding under the stored config gives bit-identical planes (label == content)",
             sym="pixel: all 2^96 bit patterns; metadata: every triple with at least one Unspecified field; range; 1x1 8-bit",
             covers=["conversion with Unspecified fields succeeded", "Unspecified transfer explored"]),
    ]
    if tier == "thorough":
        hs.append(dict(name="k_c15_label_content_xyb", what="labelx", timeout=2400, mem_gb=14,
                       obligation="XYB -> YUV with Unspecified fields: label == content", sym="as above, source XYB",
                       covers=["conversion with Unspecified fields succeeded", "Unspecified transfer explored"]))
    for h in hs:
        h.update(family="c15", replay=replay)
    p.harnesses = hs
    p.functions = ["Yuv::new, YuvConfig::fix_unspecified_data, guess_matrix_coefficients, guess_color_primaries (src/yuv.rs)", "Rgb::new, TryFrom<(LinearRgb,TC,CP)> for Rgb (src/rgb.rs)",
                   "TryFrom<(LinearRgb,YuvConfig)> / TryFrom<(Xyb,YuvConfig)> for Yuv (src/yuv.rs)"]
    p.bounds = ["resolution clause: all usize dimensions (no bound); label==content clause: 1x1 images only, where the size heuristic picks ST 170M / BT.709"]
    p.outside = ["label==content at 576/480/488-line and HD sizes (would need frames that large; the resolution clause covers the labels there)",
                 "numeric closeness of decode(output) to the input (C09 budget): the relational harness proves the stronger bit-identity of re-encoding, with powf/expf/cbrtf as pure stand-ins"]
    p.assumptions = ["log::warn! is inert (max level Off)", "powf/expf/cbrtf replaced by pure argument-sensitive stand-ins in the label harnesses (equal arguments => equal results is all that is used)"]
    return p


MANIFEST = dict(
    technique="bounded model checking of the real constructors/conversions (Kani/CBMC): all usize dimensions and every enum value symbolic; relational re-encoding harness for label==content",
    text="The resolution clause is decided with no bound on width/height (symbolic usize) for every metadata value and Unspecified subset against the mpv table written from the property text; "
         "the label==content clause as a relational solver query (convert, then convert again under the stored config: bit-identical) for every float pixel at 1x1.",
    note="Label==content only at 1x1; powf/expf/cbrtf stubbed by pure stand-ins there. F4 (Unspecified transfer/primaries encoded as sRGB/BT.709 but labelled BT.1886/guessed) was found by this harness and fixed.",
)
