"""C12 - constructors accept exactly the well-formed images and keep them verbatim."""
from vlib.check import Plan
from props import geom
from props.C07 import geom_replay
from vlib import native

VEC = r'''
#[cfg(kani)]
#[allow(dead_code, unused_imports, clippy::all, clippy::pedantic, clippy::nursery)]
mod verif_c12 {
    use crate::verif_common::*;
    use crate::*;
%s
}
'''

def vec_harness(ty, L):
    name = "k_c12_%s_len%d" % (ty.lower(), L)
    if ty == "Rgb":
        mk = "Rgb::new(d.clone(), in_w, in_h, t, pr)"
        extra_decl = "let in_t: u8 = kani::any(); let in_p: u8 = kani::any(); kani::assume(in_t < 19 && in_p < 14); let t = TC_ALL[in_t as usize]; let pr = CP_ALL[in_p as usize]; kani::assume(t != TC::Unspecified && pr != CP::Unspecified);"
        extra_ok = 'assert!(x.transfer() == t && x.primaries() == pr, "metadata verbatim");'
    else:
        mk = "%s::new(d.clone(), in_w, in_h)" % ty
        extra_decl = ""
        extra_ok = ""
    return name, r'''
    #[kani::proof]
    #[kani::unwind(%(unw)d)]
    fn %(name)s() {
        let in_w: usize = kani::any(); let in_h: usize = kani::any();
        kani::assume(in_w.checked_mul(in_h).is_some());
        let in_a: f32 = kani::any(); let in_b: f32 = kani::any();
        let mut d = vec![[0.5f32, 0.25, 1.0]; %(L)d];
        if %(L)d > 0 { d[0][0] = in_a; d[%(L)d - 1][2] = in_b; }
        %(extra_decl)s
        let r = %(mk)s;
        kani::cover!(r.is_ok(), "accepted");
        kani::cover!(r.is_err() && in_w > 1000000, "rejected with a huge width");
        assert!(r.is_ok() == (in_w * in_h == %(L)d), "accepted iff data length == width*height");
        match r {
            Ok(x) => {
                assert!(x.width() == in_w && x.height() == in_h, "dimensions verbatim");
                assert!(x.data().len() == %(L)d, "length verbatim");
                let mut same = true;
                for i in 0..%(L)d { for c in 0..3 { if x.data()[i][c].to_bits() != d[i][c].to_bits() { same = false; } } }
                assert!(same, "samples verbatim");
                %(extra_ok)s
            }
            Err(e) => assert!(e == CreationError::ResolutionMismatch, "ResolutionMismatch"),
        }
    }
''' % dict(name=name, L=L, mk=mk, extra_decl=extra_decl, extra_ok=extra_ok, unw=max(L, 3) + 2)


def vec_replay(ctx, spec, f):
    ins = {k: int(v["bin"], 2) for k, v in (f.get("inputs") or {}).items()}
    if "in_w" not in ins or "in_h" not in ins:
        return {"reproduced": None, "detail": "inputs not found in trace"}
    return native.replay_native(ctx, "vecnew", [spec["ty"], spec["L"], ins["in_w"], ins["in_h"]])


def plan(tier, seed):
    p = Plan()
    thorough = tier == "thorough"
    hs = []
    txt = geom.PRELUDE
    for T in ("u8", "u16"):
        n = "k_c12_accept_%s" % T
        txt += geom.accept_harness(T, 4, 2, 2, 2, n)
        hs.append(dict(name=n, family="geom-accept", timeout=1800, mem_gb=14,
                       obligation="Yuv::<%s>::new accepts iff decimations match, luma dims are multiples of the subsampling, chroma planes have size (w>>ssx,h>>ssy)%s; documented error per single cause; accepted frame exposes samples, layout, dimensions, config verbatim" % (
                           T, " and (depth<16) no visible sample exceeds 2^n-1" if T == "u16" else ""),
                       sym="luma window 1..4 x 1..2 in a 4x2 buffer, chroma windows 1..2 x 1..2 in 2x2 buffers, independent origins and decimations 0..2, subsampling 0..3, depth 8..16, range%s" % (
                           ", all samples symbolic" if T == "u16" else ""),
                       covers=["accepted", "rejected", "accepted 420", "chroma planes that cannot cover luma explored"],
                       replay=geom_replay, geom=dict(kind="accept", T=T, lbw=4, lbh=2, cbw=2, cbh=2)))
    txt += geom.EPILOGUE
    p.modules.append(("src/yuv_rgb.rs", txt))
    body = ""
    lens = [0, 1, 2, 6] if not thorough else [0, 1, 2, 3, 4, 5, 6, 12]
    for ty in ("Rgb", "LinearRgb", "Xyb", "Hsl"):
        for L in (lens if (thorough or ty in ("Rgb", "Hsl")) else [0, 6]):
            n, code = vec_harness(ty, L)
            body += code
            hs.append(dict(name=n, family="vec-ctor", timeout=900, mem_gb=8,
                           obligation="%s::new(data of length %d, w, h): Ok iff w*h == %d else ResolutionMismatch; accessors return the input verbatim" % (ty, L, L),
                           sym="width, height: all usize pairs whose product does not overflow; two sample components over all bit patterns" + ("; transfer/primaries any specified value" if ty == "Rgb" else ""),
                           covers=["accepted", "rejected with a huge width"] if L > 0 else ["accepted"],
                           replay=vec_replay, ty=ty, L=L))
    p.modules.append(("src/lib.rs", VEC % body))
    p.harnesses = hs
    p.functions = ["Yuv::new (src/yuv.rs:99)", "Rgb::new (src/rgb.rs:31)", "LinearRgb::new (src/linear_rgb.rs:30)", "Xyb::new (src/xyb.rs)", "Hsl::new (src/hsl.rs)",
                   "accessors data()/width()/height()/config()/transfer()/primaries()"]
    p.bounds = ["YUV frames: windows up to 4x2 (luma) / 2x2 (chroma) inside fixed buffers, every combination of sizes, origins, decimations 0..2, subsampling 0..3, depth 8..16; u16 frames with all samples symbolic",
                "Vec constructors: data length in %s, width/height over all usize with non-overflowing product" % lens]
    p.outside = ["luma sizes beyond 4x2 (the property's 1..=12) and data lengths beyond the listed ones", "w*h overflowing usize (panics in checked builds / wraps in release; outside the property's (len,w,h) quantifier)"]
    p.assumptions = ["v_frame plane representation invariant (see C07)"]
    return p


MANIFEST = dict(
    technique="bounded model checking of the real constructors (Kani/CBMC) against an acceptance oracle written from the documentation; symbolic geometry / symbolic usize dimensions",
    text="Acceptance, error variant and verbatim-exposure clauses are decided for every frame geometry inside small fixed buffers (u8 and u16, all samples symbolic for u16) and, "
         "for the Vec-based types, for ALL usize width/height pairs at several concrete data lengths.",
    note="Bounded frame sizes (luma <= 4x2) and data lengths; Plane::from_slice buffers with overwritten public cfg stand for frames built by Plane::new.",
)
