"""C19 - 3x3 matrix / vector algebra of yuvxyb-math."""
from vlib.check import Plan
from vlib import native

MOD = r'''
#[cfg(kani)]
#[allow(dead_code, unused_imports, clippy::all, clippy::pedantic, clippy::nursery)]
mod verif_c19 {
    use yuvxyb_math::{ColVector, Matrix, RowVector};

    fn any_f32_22() -> f32 { let v: f32 = kani::any(); kani::assume(v >= -2.0 && v <= 2.0); v }
    fn any_m32() -> Matrix<f32> {
        Matrix::new(RowVector::new(any_f32_22(), any_f32_22(), any_f32_22()), RowVector::new(any_f32_22(), any_f32_22(), any_f32_22()),
            RowVector::new(any_f32_22(), any_f32_22(), any_f32_22()))
    }
    // fixed-point operands k/4, |k| <= 8: every product and sum below is exact in f32, so the f32 result
    // must equal the integer-exact oracle; a structural error (index, sign, transposition) cannot hide
    fn gi() -> i32 { let k: i8 = kani::any(); kani::assume(k >= -8 && k <= 8); k as i32 }
    fn gf(k: i32) -> f32 { (k as f32) * 0.25 }
    fn gd(k: i32) -> f64 { (k as f64) * 0.25 }

    #[kani::proof]
    fn k_c19_transpose_identity_f32() {
        let m = any_m32();
        let a = m.clone().values();
        let t = m.clone().transpose();
        let tt = t.clone().transpose().values();
        let tv = t.values();
        for i in 0..3 { for j in 0..3 {
            assert!(tt[i][j].to_bits() == a[i][j].to_bits(), "transpose is an exact involution");
            assert!(tv[i][j].to_bits() == a[j][i].to_bits(), "transpose swaps indices");
        } }
        let r = m.mul_mat(Matrix::<f32>::identity()).values();
        let l = Matrix::<f32>::identity().mul_mat(m.clone()).values();
        for i in 0..3 { for j in 0..3 {
            assert!(r[i][j] == a[i][j] && l[i][j] == a[i][j], "multiplying by identity() changes nothing");
        } }
        assert!(m.r1().x().to_bits() == a[0][0].to_bits() && m.r2().y().to_bits() == a[1][1].to_bits() && m.r3().z().to_bits() == a[2][2].to_bits(), "accessors consistent with values()");
    }

    // concrete, generic (no zeros, no repeats) fixed-point fillers for the operands that are not symbolic in an instance
    const FA: [[i32; 3]; 3] = [[3, -7, 1], [-5, 6, 8], [7, -2, -4]];
    const FB: [[i32; 3]; 3] = [[-2, 7, 5], [4, -8, 3], [-6, 1, 8]];
    fn m32(a: &[[i32; 3]; 3]) -> Matrix<f32> {
        Matrix::new(RowVector::new(gf(a[0][0]), gf(a[0][1]), gf(a[0][2])), RowVector::new(gf(a[1][0]), gf(a[1][1]), gf(a[1][2])), RowVector::new(gf(a[2][0]), gf(a[2][1]), gf(a[2][2])))
    }
    fn m64(a: &[[i32; 3]; 3]) -> Matrix<f64> {
        Matrix::new(RowVector::new(gd(a[0][0]), gd(a[0][1]), gd(a[0][2])), RowVector::new(gd(a[1][0]), gd(a[1][1]), gd(a[1][2])), RowVector::new(gd(a[2][0]), gd(a[2][1]), gd(a[2][2])))
    }

    /// mul_arr / mul_vec / first column of mul_mat: lhs row R symbolic (other rows generic constants), vector symbolic
    fn mulvec_row<const R: usize>() {
        let mut a = FA;
        a[R] = [gi(), gi(), gi()];
        let v = [gi(), gi(), gi()];
        let ma = m32(&a);
        let w = ma.mul_arr([gf(v[0]), gf(v[1]), gf(v[2])]);
        let c = ma.mul_vec(&ColVector::new(gf(v[0]), gf(v[1]), gf(v[2]))).values();
        let o = Matrix::new(RowVector::new(gf(v[0]), gf(FB[0][1]), gf(FB[0][2])), RowVector::new(gf(v[1]), gf(FB[1][1]), gf(FB[1][2])), RowVector::new(gf(v[2]), gf(FB[2][1]), gf(FB[2][2])));
        let p = ma.mul_mat(o).values();
        for i in 0..3 {
            let e = a[i][0] * v[0] + a[i][1] * v[1] + a[i][2] * v[2];
            assert!(w[i] as f64 == (e as f64) * 0.0625, "mul_arr equals the exact product");
            assert!(c[i].to_bits() == w[i].to_bits(), "mul_vec agrees with mul_arr bit for bit");
            assert!(p[i][0].to_bits() == w[i].to_bits(), "mul_mat column agrees with mul_arr bit for bit");
        }
        kani::cover!(a[R][1] == 7 && v[2] == -5, "non-trivial operands explored");
    }
    #[kani::proof] fn k_c19_mulvec_row0_f32() { mulvec_row::<0>() }
    #[kani::proof] fn k_c19_mulvec_row1_f32() { mulvec_row::<1>() }
    #[kani::proof] fn k_c19_mulvec_row2_f32() { mulvec_row::<2>() }

    /// mul_mat: rhs column C symbolic, lhs generic constants with one symbolic row
    fn mulmat_col<const C: usize>() {
        let mut a = FA;
        a[(C + 1) % 3] = [gi(), gi(), gi()];
        let mut b = FB;
        for k in 0..3 { b[k][C] = gi(); }
        let p = m32(&a).mul_mat(m32(&b)).values();
        for i in 0..3 { for j in 0..3 {
            let e = a[i][0] * b[0][j] + a[i][1] * b[1][j] + a[i][2] * b[2][j];
            assert!(p[i][j] as f64 == (e as f64) * 0.0625, "mul_mat equals the exact product");
        } }
        kani::cover!(b[1][C] == 5 && a[(C + 1) % 3][0] == -3, "non-trivial operands explored");
    }
    #[kani::proof] fn k_c19_mulmat_col0_f32() { mulmat_col::<0>() }
    #[kani::proof] fn k_c19_mulmat_col1_f32() { mulmat_col::<1>() }
    #[kani::proof] fn k_c19_mulmat_col2_f32() { mulmat_col::<2>() }

    #[kani::proof]
    fn k_c19_cross_dot_grid_f32() {
        let a = [gi(), gi(), gi()]; let b = [gi(), gi(), gi()];
        let ra = RowVector::new(gf(a[0]), gf(a[1]), gf(a[2]));
        let rb = RowVector::new(gf(b[0]), gf(b[1]), gf(b[2]));
        let c = ra.cross(&rb).values();
        let e = [a[1] * b[2] - a[2] * b[1], a[2] * b[0] - a[0] * b[2], a[0] * b[1] - a[1] * b[0]];
        for i in 0..3 { assert!(c[i] as f64 == (e[i] as f64) * 0.0625, "cross equals the exact vector product"); }
        assert!(ra.dot(&rb) as f64 == ((a[0] * b[0] + a[1] * b[1] + a[2] * b[2]) as f64) * 0.0625, "dot equals the exact scalar product");
        let m = ra.component_mul(&rb).values();
        for i in 0..3 { assert!(m[i] as f64 == ((a[i] * b[i]) as f64) * 0.0625, "component_mul is element-wise"); }
        kani::cover!(b[0] == -3 && a[1] == 7, "non-trivial operands explored");
    }
    #[kani::proof]
    fn k_c19_scalar_div_grid_f32() {
        let a = [gi(), gi(), gi()];
        let d = gi();
        kani::assume(d != 0);
        let q = RowVector::new(gf(a[0]), gf(a[1]), gf(a[2])).scalar_div(gf(d)).values();
        let mq = m32(&[a, FA[1], FA[2]]).scalar_div(gf(d)).values();
        for i in 0..3 {
            // q = a/d within 1e-5*max(1,|a/d|)  <=>  |q*d - a| <= 1e-5*max(|d|,|a|)   (all in 1/4 units)
            let lhs = ((q[i] as f64) * (d as f64) - (a[i] as f64)).abs();
            let m = if a[i].abs() > d.abs() { a[i].abs() } else { d.abs() };
            assert!(lhs <= 1e-5 * (m as f64), "scalar_div is element-wise division");
            assert!(mq[0][i].to_bits() == q[i].to_bits(), "Matrix::scalar_div divides every row like RowVector::scalar_div");
        }
        kani::cover!(d == -3 && a[1] == 7, "non-trivial operands explored");
    }
    fn mulvec_f64(in_r: usize) {
        let mut a = FA;
        a[in_r] = [gi(), gi(), gi()];
        let v = [gi(), gi(), gi()];
        let ma = m64(&a);
        let w = ma.mul_arr([gd(v[0]), gd(v[1]), gd(v[2])]);
        let c = ma.mul_vec(&ColVector::new(gd(v[0]), gd(v[1]), gd(v[2]))).values();
        let t = ma.clone().transpose().values();
        let idm = ma.mul_mat(Matrix::<f64>::identity()).values();
        for i in 0..3 {
            let e = a[i][0] * v[0] + a[i][1] * v[1] + a[i][2] * v[2];
            assert!(w[i] == (e as f64) * 0.0625 && c[i] == w[i], "f64: mul_arr / mul_vec equal the exact product");
            for j in 0..3 { assert!(t[i][j] == gd(a[j][i]) && idm[i][j] == gd(a[i][j]), "f64: transpose / identity"); }
        }
        let rb = RowVector::new(gd(v[0]), gd(v[1]), gd(v[2]));
        let ra = RowVector::new(gd(a[in_r][0]), gd(a[in_r][1]), gd(a[in_r][2]));
        let cr = ra.cross(&rb).values();
        let x = a[in_r];
        assert!(cr[0] == ((x[1] * v[2] - x[2] * v[1]) as f64) * 0.0625 && cr[1] == ((x[2] * v[0] - x[0] * v[2]) as f64) * 0.0625
            && cr[2] == ((x[0] * v[1] - x[1] * v[0]) as f64) * 0.0625, "f64: cross");
        assert!(ra.dot(&rb) == ((x[0] * v[0] + x[1] * v[1] + x[2] * v[2]) as f64) * 0.0625, "f64: dot");
    }
    #[kani::proof]
    fn k_c19_dot_transpose_f64() {
        let a = [gi(), gi(), gi()]; let b = [gi(), gi(), gi()];
        let ra = RowVector::new(gd(a[0]), gd(a[1]), gd(a[2]));
        let rb = RowVector::new(gd(b[0]), gd(b[1]), gd(b[2]));
        assert!(ra.dot(&rb) == ((a[0] * b[0] + a[1] * b[1] + a[2] * b[2]) as f64) * 0.0625, "f64: dot equals the exact scalar product");
        let mut m = FA; m[1] = a;
        let t = m64(&m).transpose().values();
        let idm = m64(&m).mul_mat(Matrix::<f64>::identity()).values();
        for i in 0..3 { for j in 0..3 { assert!(t[i][j] == gd(m[j][i]) && idm[i][j] == gd(m[i][j]), "f64: transpose swaps indices, identity() is neutral"); } }
    }
    #[kani::proof] #[kani::unwind(4)] fn k_c19_mulvec_row0_f64() { mulvec_f64(0) }
    #[kani::proof] #[kani::unwind(4)] fn k_c19_mulvec_row1_f64() { mulvec_f64(1) }
    #[kani::proof] #[kani::unwind(4)] fn k_c19_mulvec_row2_f64() { mulvec_f64(2) }

    // invert: entries k/8; one row symbolic (|k| <= 16), the other two rows generic constants; determinant exact in integers
    fn hi() -> i32 { let k: i8 = kani::any(); kani::assume(k >= -16 && k <= 16); k as i32 }
    const FI: [[i32; 3]; 3] = [[9, -4, 3], [2, 11, -7], [-5, 6, 13]];
    fn invert_entries<const R: usize, const N: usize>() {
        // N symbolic entries of row R (the others generic constants)
        let mut a = FI;
        for j in 0..N { a[R][(R + j) % 3] = hi(); }
        let det = a[0][0] * (a[1][1] * a[2][2] - a[1][2] * a[2][1]) - a[0][1] * (a[1][0] * a[2][2] - a[1][2] * a[2][0]) + a[0][2] * (a[1][0] * a[2][1] - a[1][1] * a[2][0]);
        kani::assume(det >= 256 || det <= -256);          // |det| >= 0.5 (det is in 1/512 units)
        let f = |k: i32| (k as f32) * 0.125;
        let m = Matrix::new(RowVector::new(f(a[0][0]), f(a[0][1]), f(a[0][2])), RowVector::new(f(a[1][0]), f(a[1][1]), f(a[1][2])), RowVector::new(f(a[2][0]), f(a[2][1]), f(a[2][2])));
        let inv = m.invert().values();
        let adj = [
            [a[1][1] * a[2][2] - a[1][2] * a[2][1], a[0][2] * a[2][1] - a[0][1] * a[2][2], a[0][1] * a[1][2] - a[0][2] * a[1][1]],
            [a[1][2] * a[2][0] - a[1][0] * a[2][2], a[0][0] * a[2][2] - a[0][2] * a[2][0], a[0][2] * a[1][0] - a[0][0] * a[1][2]],
            [a[1][0] * a[2][1] - a[1][1] * a[2][0], a[0][1] * a[2][0] - a[0][0] * a[2][1], a[0][0] * a[1][1] - a[0][1] * a[1][0]],
        ];
        for i in 0..3 { for j in 0..3 {
            // exact inverse = adj/det: |inv_ij*det - 8*adj_ij| <= 1e-5*|det| (adj in 1/64 units, det in 1/512 units)
            let lhs = ((inv[i][j] as f64) * (det as f64) - 8.0 * (adj[i][j] as f64)).abs();
            assert!(lhs <= 1e-5 * (det.abs() as f64), "invert equals adj/det (so A*invert(A) = invert(A)*A = I within 1e-4)");
        } }
        kani::cover!(det > 1000, "large determinant explored");
        kani::cover!(det < -300, "negative determinant explored");
    }
    #[kani::proof] #[kani::unwind(4)] fn k_c19_invert_row0_f32() { invert_entries::<0, 3>() }
    #[kani::proof] #[kani::unwind(4)] fn k_c19_invert_row1_f32() { invert_entries::<1, 3>() }
    #[kani::proof] #[kani::unwind(4)] fn k_c19_invert_row2_f32() { invert_entries::<2, 3>() }
    #[kani::proof] #[kani::unwind(4)] fn k_c19_invert_one0_f32() { invert_entries::<0, 1>() }
    #[kani::proof] #[kani::unwind(4)] fn k_c19_invert_one1_f32() { invert_entries::<1, 1>() }
    #[kani::proof] #[kani::unwind(4)] fn k_c19_invert_one2_f32() { invert_entries::<2, 1>() }

    #[kani::proof]
    fn k_c19_twin_must_fail() {
        let a = [gi(), gi(), gi()]; let b = [gi(), gi(), gi()];
        let ra = RowVector::new(gf(a[0]), gf(a[1]), gf(a[2]));
        let rb = RowVector::new(gf(b[0]), gf(b[1]), gf(b[2]));
        assert!(ra.dot(&rb) as f64 != 1.0, "vacuity twin");
    }
}
'''


def plan(tier, seed):
    p = Plan()
    p.modules.append(("src/lib.rs", MOD))
    def rp(ctx, spec, f):
        return native.replay_native(ctx, "matrix", [])
    mk = lambda n, obl, sym, covers, to=900, **kw: dict(name=n, family="c19", obligation=obl, sym=sym, covers=covers, timeout=to, mem_gb=12, replay=rp, **kw)
    hs = [mk("k_c19_transpose_identity_f32", "transpose is an exact involution and swaps indices; M*identity() == identity()*M == M; accessors consistent", "9 entries: every f32 in [-2,2]", [])]
    for r in range(3):
        hs.append(mk("k_c19_mulvec_row%d_f32" % r, "mul_arr equals the exact product; mul_vec and the column of mul_mat agree with it bit for bit (lhs row %d symbolic)" % r,
                     "6 operands on the fixed-point grid k/4, |k|<=8 (every f32 operation exact, integer oracle); remaining lhs rows generic constants", ["non-trivial operands explored"]))
        hs.append(mk("k_c19_mulmat_col%d_f32" % r, "mul_mat equals the exact product (rhs column %d and one lhs row symbolic)" % r, "6 operands on the grid k/4; remaining entries generic constants", ["non-trivial operands explored"]))
        hs.append(mk("k_c19_invert_one%d_f32" % r, "invert(A) equals adj(A)/det(A) entrywise within 1e-5 for |det| >= 0.5 (entry (%d,%d) symbolic)" % (r, r),
                     "1 entry on the grid k/8, |k|<=16; other entries generic constants; exact integer determinant/adjugate oracle", ["large determinant explored"], to=900))
        if tier == "thorough":
            hs.append(mk("k_c19_invert_row%d_f32" % r, "invert(A) equals adj(A)/det(A) entrywise within 1e-5 for |det| >= 0.5 (row %d symbolic)" % r,
                         "3 entries on the grid k/8, |k|<=16; other rows generic constants; exact integer determinant/adjugate oracle (time-capped: 9 divisions by a symbolic determinant)", ["large determinant explored", "negative determinant explored"], to=5400))
        if tier == "thorough":
            hs.append(mk("k_c19_mulvec_row%d_f64" % r, "f64 instantiation: mul_arr/mul_vec/transpose/identity/cross/dot equal the exact results (row %d symbolic)" % r, "6 operands on the grid k/4", [], to=3000))
    hs += [
        mk("k_c19_cross_dot_grid_f32", "cross, dot, component_mul equal the exact results", "6 operands on the grid k/4", ["non-trivial operands explored"]),
        mk("k_c19_scalar_div_grid_f32", "scalar_div is element-wise division within 1e-5 (RowVector and Matrix)", "4 operands on the grid k/4", ["non-trivial operands explored"]),
        mk("k_c19_dot_transpose_f64", "f64 instantiation: dot exact, transpose swaps indices, identity() neutral (the full f64 product harnesses run in the thorough tier: ~9 min each)", "6 operands on the grid k/4", []),
        mk("k_c19_twin_must_fail", "vacuity twin", "", [], expect_fail="vacuity twin"),
    ]
    p.harnesses = hs
    p.functions = ["Matrix::{new,transpose,identity,scalar_div,invert,mul_vec,mul_mat,mul_arr,values,r1..r3}, RowVector::{cross,dot,scalar_div,component_mul,values,x,y,z}, ColVector::{new,values,transpose} (yuvxyb-math/src/matrix.rs)",
                   "FastMulAdd for f32/f64 (mul_add.rs, non-FMA branch)"]
    p.bounds = ["structural identities: all finite f32 in [-2,2]", "tolerance clauses: 3-7 symbolic operands per instance on fixed-point grids (k/4 resp. k/8, 17 resp. 33 values per operand) with the remaining entries generic constants (an index/sign/transposition error is independent of which entries are symbolic); the oracle is exact integer arithmetic; full-width operands would make SAT re-derive 24x24 multipliers against a wider oracle (did not finish)"]
    p.outside = ["tolerance clauses for operands with more than 8 significant bits", "A*invert(A) as a product (the entrywise adj/det contract implies it to ~1e-5*|A|<=6e-5 for these operands)", "FMA build"]
    p.assumptions = ["integer oracle: no overflow (|values| < 2^27)"]
    return p


MANIFEST = dict(
    technique="bounded model checking of the real matrix code (Kani/CBMC): bit-level identities over all floats in [-2,2]; exact integer oracles on symbolic fixed-point operand grids",
    text="Involution, identity and mul_vec/mul_arr/mul_mat consistency are decided for every f32 in [-2,2]; products, cross, dot, component_mul, scalar_div and invert against exact integer oracles for all operands on "
         "fixed-point grids (where f32 arithmetic is exact, so any index/sign/transposition error is a hard mismatch); f64 instantiation likewise.",
    note="Tolerance clauses bounded to <=8 significant operand bits; non-FMA build.",
)
