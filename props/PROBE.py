"""Developer probe: VERIF_PROBE_FILE=<rust file> bin/vcheck PROBE  (not a registered check)."""
import os, re
from vlib.check import Plan

def plan(tier, seed):
    p = Plan()
    path = os.environ["VERIF_PROBE_FILE"]
    txt = open(path).read()
    m = re.search(r"//@ append: (\S+)", txt)
    p.modules.append((m.group(1) if m else "src/lib.rs", txt))
    p.stubbing = "kani::stub" in txt
    to = int(os.environ.get("VERIF_PROBE_TIMEOUT", "600"))
    only = os.environ.get("VERIF_PROBE_ONLY")
    for n in re.findall(r"fn (k_\w+)\s*\(", txt):
        if only and not re.search(only, n):
            continue
        p.harnesses.append(dict(name=n, family="probe", obligation="probe", sym="", timeout=to, mem_gb=float(os.environ.get("VERIF_PROBE_MEM", "12")),
            unwind_rules=[(a.split("=")[0], int(a.split("=")[1])) for a in os.environ.get("VERIF_PROBE_UNW", "").split(",") if a]))
    return p
