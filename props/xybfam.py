"""XYB harness family (C04, C05)."""
from fractions import Fraction as F
from vlib import glue, native
from vlib.glue import rat, absv, lin

# libjxl opsin absorbance constants (from the property text)
JXL_A = [[F("0.30"), F("0.622"), F("0.078")], [F("0.23"), F("0.692"), F("0.078")],
         [F("0.24342268924547819"), F("0.20476744424496821"), F("0.55180986650955360")]]
JXL_B = F("0.0037930732552754493")

MOD = r'''
#[cfg(kani)]
#[allow(dead_code, unused_imports, clippy::all, clippy::pedantic, clippy::nursery)]
mod verif_xyb {
    use super::*;
    // pure, strictly monotone stand-in for the cube root (structure lemmas only)
    fn stub_cbrtf(x: f32) -> f32 { f32::from_bits(x.to_bits().rotate_left(5) ^ 0x3333_3333) }

    #[kani::proof]
    fn k_xyb_k_consts() {
        let a: [u32; 9] = %(A)s; let b: [u32; 3] = %(b)s; let inv: [u32; 9] = %(inv)s; let nb: [u32; 3] = %(negb)s;
        for i in 0..9 { assert!(OPSIN_ABSORBANCE_MATRIX[i].to_bits() == a[i] && INVERSE_OPSIN_ABSORBANCE_MATRIX[i].to_bits() == inv[i], "opsin matrices equal the extracted constants"); }
        for i in 0..3 { assert!(OPSIN_ABSORBANCE_BIAS[i].to_bits() == b[i] && NEG_OPSIN_ABSORBANCE_BIAS[i].to_bits() == nb[i], "opsin biases equal the extracted constants"); }
        for i in 0..3 { assert!(NEG_OPSIN_ABSORBANCE_BIAS[i] == -OPSIN_ABSORBANCE_BIAS[i], "the inverse uses the negated forward bias"); }
    }

    /// forward: real code vs the libjxl formula written in the same operation order; pixel on the grid k/8 in [-1,4];
    /// one harness per output component (each depends on all three inputs)
    fn forward_component(k: usize) {
        let in_r: i8 = kani::any(); let in_g: i8 = kani::any(); let in_b: i8 = kani::any();
        kani::assume(in_r >= -8 && in_r <= 32 && in_g >= -8 && in_g <= 32 && in_b >= -8 && in_b <= 32);
        let p = [(in_r as f32) * 0.125, (in_g as f32) * 0.125, (in_b as f32) * 0.125];
        let got = crate::Xyb::from(crate::LinearRgb::new(vec![p], 1, 1).unwrap());
        let a = OPSIN_ABSORBANCE_MATRIX; let bias = OPSIN_ABSORBANCE_BIAS;
        let lms = |i: usize| -> f32 {
            let mix = a[3 * i].mul_add(p[0], a[3 * i + 1].mul_add(p[1], a[3 * i + 2].mul_add(p[2], bias[i])));
            let mix = if mix < 0.0 { 0.0 } else { mix };           // clamp BEFORE the cube root
            yuvxyb_math::cbrtf(mix) + (-yuvxyb_math::cbrtf(bias[i]))
        };
        let e = if k == 0 { 0.5 * (lms(0) - lms(1)) } else if k == 1 { 0.5 * (lms(0) + lms(1)) } else { lms(2) };
        assert!(got.data()[0][k].to_bits() == e.to_bits(), "XYB pixel == ((L-M)/2, (L+M)/2, S) with (L,M,S) = cbrt(max(0, A*rgb+b)) - cbrt(b)");
        assert!(got.width() == 1 && got.height() == 1, "dimensions preserved");
        kani::cover!(in_r < 0 && in_g < 0 && in_b < 0, "negative mix (clamped) explored");
        kani::cover!(in_r > 16, "bright pixel explored");
    }
    #[kani::proof]
    #[kani::unwind(5)]
    #[kani::stub(yuvxyb_math::cbrtf::cbrtf, stub_cbrtf)]
    fn k_xyb_w_forward_x() { forward_component(0) }
    #[kani::proof]
    #[kani::unwind(5)]
    #[kani::stub(yuvxyb_math::cbrtf::cbrtf, stub_cbrtf)]
    fn k_xyb_w_forward_y() { forward_component(1) }
    #[kani::proof]
    #[kani::unwind(5)]
    #[kani::stub(yuvxyb_math::cbrtf::cbrtf, stub_cbrtf)]
    fn k_xyb_w_forward_b() { forward_component(2) }

    /// inverse: real code vs Inv * ((unmix(q) - cbrt(-b))^3 - b) in the same operation order; XYB on the grid k/64
    #[kani::proof]
    #[kani::unwind(5)]
    #[kani::stub(yuvxyb_math::cbrtf::cbrtf, stub_cbrtf)]
    fn k_xyb_w_inverse() {
        let in_x: i8 = kani::any(); let in_y: i8 = kani::any(); let in_b: i8 = kani::any();
        kani::assume(in_x >= -32 && in_x <= 32 && in_y >= 0 && in_y <= 100 && in_b >= 0 && in_b <= 100);
        let q = [(in_x as f32) * 0.015625, (in_y as f32) * 0.015625, (in_b as f32) * 0.015625];
        let got = crate::LinearRgb::from(crate::Xyb::new(vec![q], 1, 1).unwrap());
        let inv = INVERSE_OPSIN_ABSORBANCE_MATRIX; let nb = NEG_OPSIN_ABSORBANCE_BIAS;
        let mut g = [q[1] + q[0], q[1] - q[0], q[2]];
        for i in 0..3 {
            g[i] -= yuvxyb_math::cbrtf(nb[i]);
            let t = g[i] * g[i];
            g[i] = t.mul_add(g[i], nb[i]);                          // cube, then remove the bias
        }
        let mut e = [0.0f32; 3];
        for i in 0..3 {
            e[i] = inv[3 * i] * g[0];
            e[i] = inv[3 * i + 1].mul_add(g[1], e[i]);
            e[i] = inv[3 * i + 2].mul_add(g[2], e[i]);
        }
        for k in 0..3 { assert!(got.data()[0][k].to_bits() == e[k].to_bits(), "linear pixel == Inv * ((unmix(XYB) - cbrt(-b))^3 - b)"); }
        assert!(got.width() == 1 && got.height() == 1, "dimensions preserved");
        kani::cover!(in_x < 0 && in_y > 50, "typical XYB explored");
    }
}
'''


def opsin(consts):
    o = consts["opsin"]
    A = [[glue.f32(o["A"][3 * i + j]) for j in range(3)] for i in range(3)]
    b = [glue.f32(x) for x in o["b"]]
    inv = [[glue.f32(o["inv"][3 * i + j]) for j in range(3)] for i in range(3)]
    nb = [glue.f32(x) for x in o["negb"]]
    return A, b, inv, nb


def module(consts):
    o = consts["opsin"]
    return MOD % dict(A=str(o["A"]), b=str(o["b"]), inv=str(o["inv"]), negb=str(o["negb"]))


def glue_forward_consts(consts):
    """the f32 opsin constants are the libjxl decimals to f32 precision, and the affine stage error they cause is negligible"""
    A, b, _, _ = opsin(consts)
    out = []
    for i in range(3):
        q = glue.Query("c04-affine-row%d" % i,
                       "forall rgb in [-1,4]^3: |(A_f32*rgb + b_f32)_i - (A_jxl*rgb + b_jxl)_i| <= 1.5e-7*(sum_j |A_jxl,ij|*|rgb_j| + b_jxl): the f32 opsin constants are the libjxl decimals to f32 precision (row %d)" % i)
        v = [q.real("v%d" % j, -1, 4) for j in range(3)]
        # 3 fused mul_adds: each one rounding, relative 2^-24 of its result; results bounded by sum |a_j|*4 + b
        mx = sum(abs(x) for x in A[i]) * 4 + b[i]
        rho = 3 * glue.U32 * mx
        q.real("u")     # relative part handled conservatively below
        q.define("got", lin(A[i], v, b[i]))
        q.define("want", lin(JXL_A[i], v, JXL_B))
        # coefficient error alone (the rounding part is stated separately as rho)
        mag = "(+ %s %s)" % (" ".join("(* %s %s)" % (rat(abs(JXL_A[i][j])), absv(v[j])) for j in range(3)), rat(JXL_B))
        q.add("(> %s (* %s %s))" % (absv("(- got want)"), rat(F(15, 10 ** 8)), mag))
        r = q.run(cross=True)
        if r["status"] == "sat":
            r["replay"] = _model_replay(ctx_holder.get("ctx"), r, "fwd", ("v0", "v1", "v2"))
        r["detail"] = (r.get("detail") or "") + " standard-model rounding budget of the 3 FMAs (absolute, worst case at |mix|=%.3f): %.2e" % (float(mx), float(rho))
        out.append(r)
    return out


def glue_inverse(consts):
    """C05: in exact arithmetic the inverse pipeline applied to the forward pipeline returns p + (Inv_f32*A_f32 - I)p; with the
    rounding budget rho per mixed channel the round-trip error stays below 5e-5 on [0,1]^3"""
    A, b, inv, nb = opsin(consts)
    rho = F(1, 10 ** 6)
    out = []
    for i in range(3):
        q = glue.Query("c05-inverse-row%d" % i,
                       "forall p in [0,1]^3: |(Inv_f32 * (A_f32*p + b_f32 + (-b_f32) + r))_i - p_i| <= 5e-5, |r_j| <= 1e-6 the (assumed) rounding budget of cube root, cube and un-mixing per channel")
        p = [q.real("p%d" % j, 0, 1) for j in range(3)]
        mixed = []
        for j in range(3):
            q.real("r%d" % j, -rho, rho)
            mixed.append(q.define("m%d" % j, "(+ %s r%d)" % (lin(A[j], p, b[j] + nb[j]), j)))
        q.define("back", lin(inv[i], mixed))
        q.add("(> %s %s)" % (absv("(- back p%d)" % i), rat(F(5, 10 ** 5))))
        r = q.run(cross=True)
        if r["status"] == "sat":
            r["replay"] = _model_replay(ctx_holder.get("ctx"), r, "rt", ("p0", "p1", "p2"))
        out.append(r)
    return out


ctx_holder = {}


def _model_replay(ctx, res, mode, names):
    import struct
    if ctx is None:
        return {"reproduced": None, "detail": "no context"}
    fb = lambda v: "%x" % struct.unpack("<I", struct.pack("<f", float(v)))[0]
    m = glue.parse_model(res.get("model", ""))
    cands = []
    if all(n in m for n in names):
        cands.append([m[n] for n in names])
    cands += [[0, 0, 1], [1, 1, 0], [0, 1, 0], [1, 0, 0], [1, 1, 1], [F(1, 2), F(1, 4), F(3, 4)], [4, 4, 4] if mode == "fwd" else [F(1, 50), F(1, 100), F(3, 100)]]
    rep = None
    for c in cands:
        rep = native.replay_native(ctx, "xyb", [mode] + [fb(x) for x in c], both_profiles=False)
        if rep.get("reproduced"):
            return rep
    return rep


def replay_xyb(ctx, spec, f):
    import struct
    ins = {}
    for k, v in (f.get("inputs") or {}).items():
        x = int(v["bin"], 2)
        ins[k] = x - 256 if x > 127 else x
    fb = lambda v: "%x" % struct.unpack("<I", struct.pack("<f", v))[0]
    if spec["dir"] == "fwd":
        if any(k not in ins for k in ("in_r", "in_g", "in_b")):
            return {"reproduced": None, "detail": "inputs not found"}
        px = [ins["in_r"] / 8.0, ins["in_g"] / 8.0, ins["in_b"] / 8.0]
        tries = [px, [-1.0, -1.0, -1.0], [1.0, 0.0, -1.0], [0.5, 0.25, 0.75], [4.0, 4.0, 4.0], [0.0, 0.0, 0.0]]
        last = None
        for p in tries:
            last = native.replay_native(ctx, "xyb", ["fwd"] + [fb(c) for c in p], both_profiles=False)
            if last.get("reproduced"):
                return last
        return last
    # inverse structure: confirm through the round trip on probe pixels
    last = None
    for p in ([0.0, 0.0, 1.0], [1.0, 1.0, 0.0], [0.0, 1.0, 0.0], [0.5, 0.25, 0.75], [1.0, 1.0, 1.0], [0.02, 0.01, 0.03]):
        last = native.replay_native(ctx, "xyb", ["rt"] + [fb(c) for c in p], both_profiles=False)
        if last.get("reproduced"):
            return last
    return last
