"""Frame-geometry harness family (C07 index safety, C11 pointwise decode, C12 acceptance).

Pre-state is symbolic instead of exploring construction histories: each plane is a
fixed small buffer (Plane::from_slice) whose public `cfg` describes a window inside
it, constrained only by the representation invariant Plane::new / from_slice
establish (xorigin+width <= stride, yorigin+height <= alloc_height,
stride*alloc_height == len).  Chroma planes are independent of luma."""

PRELUDE = r'''
#[cfg(kani)]
#[allow(dead_code, unused_imports, clippy::all, clippy::pedantic, clippy::nursery)]
mod verif_geom {
    use super::*;
    use crate::verif_common::*;
    use crate::YuvError;
    use v_frame::plane::PlaneConfig;

    /// window (w,h) at a symbolic origin inside a buffer of BW x (N/BW) samples
    fn plane_win<T: Pixel, const N: usize>(buf: &[T; N], bw: usize, w: usize, h: usize, xdec: usize, ydec: usize) -> Plane<T> {
        let mut p = Plane::from_slice(buf, bw);
        let bh = N / bw;
        let xo: usize = kani::any();
        let yo: usize = kani::any();
        kani::assume(xo <= bw && yo <= bh && w <= bw - xo && h <= bh - yo);
        p.cfg = PlaneConfig { stride: bw, alloc_height: bh, width: w, height: h, xdec, ydec,
            xpad: bw - xo - w, ypad: bh - yo - h, xorigin: xo, yorigin: yo };
        p
    }
    /// window (w,h) at origin (0,0) of the buffer (light variant: padding on the right/bottom only)
    fn plane_win0<T: Pixel, const N: usize>(buf: &[T; N], bw: usize, w: usize, h: usize, xdec: usize, ydec: usize) -> Plane<T> {
        let mut p = Plane::from_slice(buf, bw);
        let bh = N / bw;
        p.cfg = PlaneConfig { stride: bw, alloc_height: bh, width: w, height: h, xdec, ydec, xpad: bw - w, ypad: bh - h, xorigin: 0, yorigin: 0 };
        p
    }
    fn any_dim(max: usize) -> usize { let v: usize = kani::any(); kani::assume(v >= 1 && v <= max); v }
    fn any_dec() -> usize { let v: usize = kani::any(); kani::assume(v <= 2); v }
    fn cfg(bd: u8, ssx: u8, ssy: u8, full: bool) -> YuvConfig {
        YuvConfig { bit_depth: bd, subsampling_x: ssx, subsampling_y: ssy, full_range: full,
            matrix_coefficients: MC::BT709, transfer_characteristics: TC::BT1886, color_primaries: CP::BT709 }
    }
    fn vis<T: Pixel>(p: &Plane<T>, x: usize, y: usize) -> T {
        // visible sample (x,y), computed from the public fields only (independent of the code under test)
        p.data[(p.cfg.yorigin + y) * p.cfg.stride + p.cfg.xorigin + x]
    }
'''

EPILOGUE = "}\n"


def accept_harness(T, lbw, lbh, cbw, cbh, name):
    """Yuv::new acceptance oracle over fully symbolic geometry (C12, C07 rejection clause)."""
    ln, cn = lbw * lbh, cbw * cbh
    u16 = T == "u16"
    data_clause = ""
    if u16:
        data_clause = r'''
        let maxv: u16 = if c.bit_depth < 16 { ((1u32 << c.bit_depth) - 1) as u16 } else { u16::MAX };
        let mut bad_data = false;
        for pi in 0..3 {
            let p = &f.planes[pi];
            for yy in 0..%d { for xx in 0..%d {
                if xx < p.cfg.width && yy < p.cfg.height && vis(p, xx, yy) > maxv { bad_data = true; }
            } }
        }''' % (max(lbh, cbh), max(lbw, cbw))
    else:
        data_clause = "        let bad_data = false;"
    return r'''
    #[kani::proof]
    #[kani::unwind(%(unw)d)]
    fn %(name)s() {
        let yb: [%(T)s; %(ln)d] = kani::any(); let ub: [%(T)s; %(cn)d] = kani::any(); let vb: [%(T)s; %(cn)d] = kani::any();
        let in_w = any_dim(%(lbw)d); let in_h = any_dim(%(lbh)d);
        let in_uw = any_dim(%(cbw)d); let in_uh = any_dim(%(cbh)d);
        let in_vw = any_dim(%(cbw)d); let in_vh = any_dim(%(cbh)d);
        let in_uxdec = any_dec(); let in_uydec = any_dec(); let in_vxdec = any_dec(); let in_vydec = any_dec();
        let f: Frame<%(T)s> = Frame { planes: [
            plane_win::<%(T)s, %(ln)d>(&yb, %(lbw)d, in_w, in_h, 0, 0),
            plane_win::<%(T)s, %(cn)d>(&ub, %(cbw)d, in_uw, in_uh, in_uxdec, in_uydec),
            plane_win::<%(T)s, %(cn)d>(&vb, %(cbw)d, in_vw, in_vh, in_vxdec, in_vydec)] };
        let in_bd: u8 = kani::any();
        kani::assume(in_bd >= 8 && in_bd <= 16);
        let in_ssx: u8 = kani::any(); let in_ssy: u8 = kani::any();
        kani::assume(in_ssx <= 3 && in_ssy <= 3);
        let in_full: bool = kani::any();
        let c = cfg(in_bd, in_ssx, in_ssy, in_full);
        let (sx, sy) = (in_ssx as usize, in_ssy as usize);
        let bad_dec = !(in_uxdec == sx && in_vxdec == sx && in_uydec == sy && in_vydec == sy);
        let bad_w = in_w %% (1usize << sx) != 0;
        let bad_h = in_h %% (1usize << sy) != 0;
        let bad_chroma = !(in_uw == in_w >> sx && in_vw == in_w >> sx && in_uh == in_h >> sy && in_vh == in_h >> sy);
%(data_clause)s
        let fcopy = f.clone();
        let r = Yuv::new(f, c);
        kani::cover!(r.is_ok(), "accepted");
        kani::cover!(r.is_err(), "rejected");
        kani::cover!(r.is_ok() && in_ssx == 1 && in_ssy == 1, "accepted 420");
        kani::cover!(bad_chroma && !bad_dec && !bad_w && !bad_h, "chroma planes that cannot cover luma explored");
        let want = !(bad_dec || bad_w || bad_h || bad_chroma || bad_data);
        assert!(r.is_ok() == want, "Yuv::new accepts exactly the well-formed frames");
        match r {
            Ok(y) => {
                assert!(y.width() == in_w && y.height() == in_h, "accepted frame keeps its dimensions");
                assert!(y.config() == c, "accepted frame keeps its (fully specified) config");
                assert!(y.data()[0].cfg == fcopy.planes[0].cfg && y.data()[1].cfg == fcopy.planes[1].cfg && y.data()[2].cfg == fcopy.planes[2].cfg, "accepted frame keeps its plane layout");
                assert!(y.data()[0].data == fcopy.planes[0].data && y.data()[1].data == fcopy.planes[1].data && y.data()[2].data == fcopy.planes[2].data, "accepted frame keeps its samples verbatim");
            }
            Err(e) => {
                if bad_dec && !bad_w && !bad_h && !bad_chroma && !bad_data { assert!(e == YuvError::SubsamplingMismatch, "decimation mismatch -> SubsamplingMismatch"); }
                if bad_w && !bad_dec && !bad_h && !bad_chroma && !bad_data { assert!(e == YuvError::InvalidLumaWidth, "odd width -> InvalidLumaWidth"); }
                if bad_h && !bad_dec && !bad_w && !bad_chroma && !bad_data { assert!(e == YuvError::InvalidLumaHeight, "odd height -> InvalidLumaHeight"); }
                if bad_data && !bad_dec && !bad_w && !bad_h && !bad_chroma { assert!(e == YuvError::InvalidData, "out-of-range sample -> InvalidData"); }
            }
        }
    }
''' % dict(name=name, T=T, ln=ln, cn=cn, lbw=lbw, lbh=lbh, cbw=cbw, cbh=cbh, data_clause=data_clause,
           unw=max(ln, cn) * (2 if T == 'u16' else 1) + 2)


def decode_harness(T, ssx, ssy, w, h, name, bd, symbolic_content, pointwise, ue=0, ve=1, keepcmp=True, full=None, light=False):
    """Accepted frame -> ycbcr_to_ypbpr with every get_unchecked inside its buffer (C07);
    with pointwise=True also: output pixel (x,y) == kernels(Y(x,y), U/V(x>>ssx, y>>ssy)) bit for bit,
    source unmodified (C11)."""
    lbw, lbh = w + 1, h + 1
    cw, ch = max(w >> ssx, 1), max(h >> ssy, 1)
    cbw, cbh = cw + 1, ch + 1
    # the two chroma planes live in buffers of different widths, so their strides differ (as planes with different padding do)
    ubw, vbw = cbw + ue, cbw + ve
    ln, cn, un, vn = lbw * lbh, max(ubw, vbw) * cbh, ubw * cbh, vbw * cbh
    if symbolic_content:
        bufs = "let yb: [%s; %d] = kani::any(); let ub: [%s; %d] = kani::any(); let vb: [%s; %d] = kani::any();" % (T, ln, T, un, T, vn)
    else:
        bufs = "let yb = [0 as %s; %d]; let ub = [0 as %s; %d]; let vb = [0 as %s; %d];" % (T, ln, T, un, T, vn)
    pw = ""
    if pointwise:
        pw = r'''
            let (ls, lo) = get_scale_offset::<true>(c.bit_depth, c.full_range, false);
            let (cs, co) = get_scale_offset::<true>(c.bit_depth, c.full_range, true);
            for yy in 0..%(h)d { for xx in 0..%(w)d {
                let e = [to_f32_luma(vis(&keep.planes[0], xx, yy), ls, lo),
                         to_f32_chroma(vis(&keep.planes[1], xx >> %(ssx)d, yy >> %(ssy)d), cs, co),
                         to_f32_chroma(vis(&keep.planes[2], xx >> %(ssx)d, yy >> %(ssy)d), cs, co)];
                let g = o[yy * %(w)d + xx];
                assert!(g[0].to_bits() == e[0].to_bits() && g[1].to_bits() == e[1].to_bits() && g[2].to_bits() == e[2].to_bits(),
                    "decoded pixel (x,y) is the 1x1 conversion of Y(x,y), U/V(x>>ssx,y>>ssy)");
            } }
%(cmp)s''' % dict(w=w, h=h, ssx=ssx, ssy=ssy, cmp=("""            assert!(y.data()[0].data == keep.planes[0].data && y.data()[1].data == keep.planes[1].data && y.data()[2].data == keep.planes[2].data,
                "borrowed source unmodified");""" if keepcmp else ""))
    tmpl = r'''
    #[kani::proof]
    #[kani::unwind(%(unw)d)]
    fn %(name)s() {
        %(bufs)s
        let f: Frame<%(T)s> = Frame { planes: [
            plane_win::<%(T)s, %(ln)d>(&yb, %(lbw)d, %(w)d, %(h)d, 0, 0),
            plane_win::<%(T)s, %(un)d>(&ub, %(ubw)d, any_dim(%(ubw)d), any_dim(%(cbh)d), %(ssx)d, %(ssy)d),
            plane_win::<%(T)s, %(vn)d>(&vb, %(vbw)d, any_dim(%(vbw)d), any_dim(%(cbh)d), %(ssx)d, %(ssy)d)] };
        let c = cfg(%(bd)d, %(ssx)d, %(ssy)d, %(full)s);
        let keep = f.clone();
        let r = Yuv::new(f, c);
        kani::cover!(r.is_ok(), "accepted");
        if let Ok(y) = r {
            let o = ycbcr_to_ypbpr(&y);
            assert!(o.len() == %(w)d * %(h)d, "one output pixel per luma sample");
            kani::cover!(o.len() == %(w)d * %(h)d, "decoded");%(pw)s
        }
    }
'''
    if light:
        # memory-light variant: origins fixed at (0,0), chroma windows of the required size; strides still differ from the
        # widths and between the planes, contents (padding included) still symbolic
        tmpl = tmpl.replace("plane_win::<%(T)s, %(ln)d>(&yb,", "plane_win0::<%(T)s, %(ln)d>(&yb,").replace("plane_win::<%(T)s, %(un)d>(&ub, %(ubw)d, any_dim(%(ubw)d), any_dim(%(cbh)d),", "plane_win0::<%(T)s, %(un)d>(&ub, %(ubw)d, %(cw)d, %(ch)d,").replace("plane_win::<%(T)s, %(vn)d>(&vb, %(vbw)d, any_dim(%(vbw)d), any_dim(%(cbh)d),", "plane_win0::<%(T)s, %(vn)d>(&vb, %(vbw)d, %(cw)d, %(ch)d,")
    return tmpl % dict(name=name, T=T, bufs=bufs, ln=ln, cn=cn, un=un, vn=vn, cw=cw, ch=ch, ubw=ubw, vbw=vbw, full=('kani::any()' if full is None else ('true' if full else 'false')), lbw=lbw, cbw=cbw, cbh=cbh, w=w, h=h, ssx=ssx, ssy=ssy, bd=bd,
           pw=pw, unw=max(max(ln, cn) * (2 if (T == 'u16' and pointwise) else 1), w * h) + 2)


def decode_rules(w, h):
    # the two conversion loops get exactly their trip count (+1); everything else the global bound
    return [(r"ycbcr_to_ypbpr", max(w, h) + 1)]
