"""C06 - primaries conversion equals the CIE derivation and keeps white white."""
import os
from fractions import Fraction as F

from vlib.check import Plan
from vlib import glue, native
from vlib.glue import rat, absv, lin

CP_NAMES = {1: "BT709", 4: "BT470M", 5: "BT470BG", 6: "ST170M", 7: "ST240M", 8: "Film", 9: "BT2020", 10: "ST428", 11: "P3DCI", 12: "P3Display", 13: "Tech3213"}
# H.273 chromaticities (x,y of R,G,B) and white points, transcribed from the standard
XY = {1: (("0.640", "0.330"), ("0.300", "0.600"), ("0.150", "0.060")),
      4: (("0.67", "0.33"), ("0.21", "0.71"), ("0.14", "0.08")),
      5: (("0.64", "0.33"), ("0.29", "0.60"), ("0.15", "0.06")),
      6: (("0.630", "0.340"), ("0.310", "0.595"), ("0.155", "0.070")),
      7: (("0.630", "0.340"), ("0.310", "0.595"), ("0.155", "0.070")),
      8: (("0.681", "0.319"), ("0.243", "0.692"), ("0.145", "0.049")),
      9: (("0.708", "0.292"), ("0.170", "0.797"), ("0.131", "0.046")),
      11: (("0.680", "0.320"), ("0.265", "0.690"), ("0.150", "0.060")),
      12: (("0.680", "0.320"), ("0.265", "0.690"), ("0.150", "0.060")),
      13: (("0.630", "0.340"), ("0.295", "0.605"), ("0.155", "0.077"))}
D65, ILL_C, DCI, ILL_E = (F("0.3127"), F("0.3290")), (F("0.310"), F("0.316")), (F("0.314"), F("0.351")), (F(1, 3), F(1, 3))
WHITE = {1: D65, 4: ILL_C, 5: D65, 6: D65, 7: D65, 8: ILL_C, 9: D65, 10: ILL_E, 11: DCI, 12: D65, 13: D65}
BRADFORD = [[F("0.8951"), F("0.2664"), F("-0.1614")], [F("-0.7502"), F("1.7135"), F("0.0367")], [F("0.0389"), F("-0.0685"), F("1.0296")]]
TOL = F(1, 10 ** 5)
BOX = (F(-1, 2), F(2))


def mmul(a, b):
    return [[sum(a[i][k] * b[k][j] for k in range(3)) for j in range(3)] for i in range(3)]


def mvec(a, v):
    return [sum(a[i][k] * v[k] for k in range(3)) for i in range(3)]


def minv(m):
    (a, b, c), (d, e, f), (g, h, i) = m
    det = a * (e * i - f * h) - b * (d * i - f * g) + c * (d * h - e * g)
    adj = [[e * i - f * h, c * h - b * i, b * f - c * e], [f * g - d * i, a * i - c * g, c * d - a * f], [d * h - e * g, b * g - a * h, a * e - b * d]]
    return [[x / det for x in r] for r in adj]


def xyz(xy):
    x, y = xy
    return [x / y, F(1), (1 - x - y) / y]


def rgb_to_xyz(p):
    if p == 10:
        return [[F(1), F(0), F(0)], [F(0), F(1), F(0)], [F(0), F(0), F(1)]]
    cols = [xyz((F(a), F(b))) for (a, b) in XY[p]]
    m = [[cols[j][i] for j in range(3)] for i in range(3)]
    s = mvec(minv(m), xyz(WHITE[p]))
    return [[m[i][j] * s[j] for j in range(3)] for i in range(3)]


def adapt(pin, pout):
    wi, wo = xyz(WHITE[pin]), xyz(WHITE[pout])
    if wi == wo:
        return [[F(1), F(0), F(0)], [F(0), F(1), F(0)], [F(0), F(0), F(1)]]
    ri, ro = mvec(BRADFORD, wi), mvec(BRADFORD, wo)
    d = [[ro[0] / ri[0], F(0), F(0)], [F(0), ro[1] / ri[1], F(0)], [F(0), F(0), ro[2] / ri[2]]]
    return mmul(mmul(minv(BRADFORD), d), BRADFORD)


def t_cie(pin, pout):
    return mmul(mmul(minv(rgb_to_xyz(pout)), adapt(pin, pout)), rgb_to_xyz(pin))


def code_matrix(consts, pin, pout):
    v = consts["primaries"]["%d-%d" % (pin, pout)]
    return [[glue.f32(v[i * 3 + j]) for j in range(3)] for i in range(3)]


KMOD = r'''
#[cfg(kani)]
#[allow(dead_code, unused_imports, clippy::all, clippy::pedantic, clippy::nursery)]
mod verif_c06k {
    use super::*;
    use crate::verif_common::*;
%s
}
'''
WMOD = r'''
#[cfg(kani)]
#[allow(dead_code, unused_imports, clippy::all, clippy::pedantic, clippy::nursery)]
mod verif_c06w {
    use super::*;
    use crate::verif_common::*;
    use crate::{LinearRgb, Rgb};
%s
}
'''


def k_harness(pin, pout, bits):
    name = "k_c06_k_%d_%d" % (pin, pout)
    return name, r'''
    #[kani::proof]
    fn %(name)s() {
        let t = gamut_xyz_to_rgb_matrix(CP_ALL[%(o)d]).unwrap().mul_mat(white_point_adaptation_matrix(CP_ALL[%(i)d], CP_ALL[%(o)d])).mul_mat(gamut_rgb_to_xyz_matrix(CP_ALL[%(i)d]).unwrap()).values();
        let want: [u32; 9] = %(bits)s;
        for i in 0..3 { for j in 0..3 { assert!(t[i][j].to_bits() == want[i * 3 + j], "composite primaries matrix built by the real code equals the natively extracted constant"); } }
    }
''' % dict(name=name, i=pin, o=pout, bits=str(bits))


def w_harness(pin, pout):
    name = "k_c06_w_%d_%d" % (pin, pout)
    if pout == 1:
        call = "LinearRgb::try_from(Rgb::new(vec![[in_r, in_g, in_b]], 1, 1, TC::Linear, CP_ALL[%d]).unwrap()).unwrap()" % pin
    else:
        call = "Rgb::try_from((LinearRgb::new(vec![[in_r, in_g, in_b]], 1, 1).unwrap(), TC::Linear, CP_ALL[%d])).unwrap()" % pout
    return name, r'''
    #[kani::proof]
    #[kani::unwind(5)]
    #[kani::stub(yuvxyb_math::matrix::Matrix::mul_arr, yuvxyb_math::matrix::verif_stub_mul_arr)]
    fn %(name)s() {
        let in_r: f32 = kani::any(); let in_g: f32 = kani::any(); let in_b: f32 = kani::any();
        let got = %(call)s;
        let t = gamut_xyz_to_rgb_matrix(CP_ALL[%(o)d]).unwrap().mul_mat(white_point_adaptation_matrix(CP_ALL[%(i)d], CP_ALL[%(o)d])).mul_mat(gamut_rgb_to_xyz_matrix(CP_ALL[%(i)d]).unwrap());
        let e = t.mul_arr([in_r, in_g, in_b]);       // same pure stand-in on both sides (arithmetic of mul_arr: S-lemma)
        for k in 0..3 { assert!(got.data()[0][k].to_bits() == e[k].to_bits(), "converted pixel == mul_arr(M_out^-1 * adapt * M_in, pixel)"); }
        assert!(got.width() == 1 && got.height() == 1 && got.data().len() == 1, "dimensions preserved");
        kani::cover!(in_r > 0.25 && in_r < 0.5, "in-gamut pixel explored");
    }
''' % dict(name=name, call=call, i=pin, o=pout)


IDENT = r'''
    #[kani::proof]
    #[kani::unwind(5)]
    fn k_c06_identity() {
        let in_r: f32 = kani::any(); let in_g: f32 = kani::any(); let in_b: f32 = kani::any();
        let a = LinearRgb::try_from(Rgb::new(vec![[in_r, in_g, in_b]], 1, 1, TC::Linear, CP::BT709).unwrap()).unwrap();
        let b = Rgb::try_from((LinearRgb::new(vec![[in_r, in_g, in_b]], 1, 1).unwrap(), TC::Linear, CP::BT709)).unwrap();
        let px = [in_r, in_g, in_b];
        for k in 0..3 { assert!(a.data()[0][k].to_bits() == px[k].to_bits() && b.data()[0][k].to_bits() == px[k].to_bits(), "identical source and target primaries leave the data bit-exactly unchanged"); }
        let in_p: u8 = kani::any(); kani::assume(in_p < 14);
        let same = transform_primaries(vec![px], CP_ALL[in_p as usize], CP_ALL[in_p as usize]).unwrap();
        for k in 0..3 { assert!(same[0][k].to_bits() == px[k].to_bits(), "same primaries on both sides: bit-exact identity for every enum value"); }
        kani::cover!(in_r.is_nan(), "NaN explored");
    }
'''


def replay(ctx, spec, f):
    ins = {k: int(v["bin"], 2) for k, v in (f.get("inputs") or {}).items()}
    if any(k not in ins for k in ("in_r", "in_g", "in_b")):
        return {"reproduced": None, "detail": "inputs not found"}
    import struct
    px = ["%x" % ins[k] for k in ("in_r", "in_g", "in_b")]
    fb = lambda v: "%x" % struct.unpack("<I", struct.pack("<f", v))[0]
    last = None
    for p in (px, [fb(1.0)] * 3, [fb(0.25), fb(0.5), fb(0.75)], [fb(1.0), fb(0.0), fb(0.0)], [fb(0.0), fb(1.0), fb(0.0)], [fb(0.0), fb(0.0), fb(1.0)]):
        last = native.replay_native(ctx, "prim", [spec["pin"], spec["pout"]] + p, both_profiles=False)
        if last.get("reproduced"):
            return last
    return last


def plan(tier, seed):
    p = Plan()
    p.native = True
    p.stubbing = True
    here = os.path.dirname(__file__)
    p.modules.append(("yuvxyb-math/src/matrix.rs", open(os.path.join(here, "..", "harness", "math_stub.rs")).read()))
    p.modules.append(("yuvxyb-math/src/lib.rs", open(os.path.join(here, "..", "harness", "math_stub_lib.rs")).read()))
    others = [4, 5, 6, 7, 8, 9, 10, 11, 12, 13]
    pairs = [(o, 1) for o in others] + [(1, o) for o in others]
    thorough = tier == "thorough"
    if thorough:
        wpairs = pairs
    else:
        pick = [9, others[seed % len(others)], 8 if seed % 2 == 0 else 11, 10]
        wpairs = [(o, 1) for o in dict.fromkeys(pick)] + [(1, o) for o in dict.fromkeys(pick)]

    def late(ctx, plan):
        consts = native.consts(ctx)
        k, w, hs = "", IDENT, []
        for (i, o) in pairs:
            n, code = k_harness(i, o, consts["primaries"]["%d-%d" % (i, o)])
            k += code
            hs.append(dict(name=n, family="K", timeout=900, mem_gb=8, replay=None, covers=[],
                           obligation="K-lemma %s->%s: the composite matrix the real code builds (get_primaries_xy, xy_to_xyz, gamut matrices, Bradford adaptation, 3 inversions, 2 products) equals the extracted f32 constants used by the glue" % (CP_NAMES[i], CP_NAMES[o]),
                           sym="none (concrete symbolic execution)"))
        for (i, o) in wpairs:
            n, code = w_harness(i, o)
            w += code
            hs.append(dict(name=n, family="W", timeout=1200, mem_gb=10, replay=replay, pin=i, pout=o, covers=["in-gamut pixel explored"],
                           obligation="W-lemma %s->%s: the public conversion on a 1-pixel image == mul_arr(composite matrix, pixel), bit for bit; dimensions preserved" % (CP_NAMES[i], CP_NAMES[o]),
                           sym="pixel: all 2^96 f32 bit patterns"))
        hs.append(dict(name="k_c06_identity", family="identity", timeout=900, mem_gb=10, replay=None, covers=["NaN explored"],
                       obligation="identical source and target primaries leave the data bit-exactly unchanged (public API with BT.709; transform_primaries for every enum value)",
                       sym="pixel: all 2^96 bit patterns; primaries index symbolic over all 14 values"))
        plan.modules.append(("src/yuv_rgb/color.rs", KMOD % k))
        plan.modules.append(("src/yuv_rgb/color.rs", WMOD % w))
        plan.harnesses = hs

    def g(ctx):
        consts = native.consts(ctx)
        out = []
        for (i, o) in pairs:
            kr = ctx.results.get("k_c06_k_%d_%d" % (i, o))
            if kr is None or kr.status != "pass":
                continue
            T = code_matrix(consts, i, o)
            C = t_cie(i, o)
            Tb = code_matrix(consts, o, i)
            for r in range(3):
                rho = glue.rho_dot3(T[r], [2, 2, 2])
                q = glue.Query("c06-%s-%s-row%d" % (CP_NAMES[i], CP_NAMES[o], r),
                               "forall v in [-0.5,2]^3: |(T_f32*v)_r + e - (M_out^-1 * Bradford * M_in * v)_r| <= 1e-5*max(1,|v|_inf), T_f32 = the real code's matrix, CIE matrix from the H.273 chromaticities in exact rationals, e = standard-model rounding of the dot product")
                v = [q.real("v%d" % j, BOX[0], BOX[1]) for j in range(3)]
                q.real("e", -rho, rho)
                q.real("n", 1)
                for j in range(3):
                    q.add("(>= n %s)" % absv(v[j]))
                q.add("(or (= n 1.0) (= n %s) (= n %s) (= n %s))" % (absv(v[0]), absv(v[1]), absv(v[2])))
                q.define("d", "(- (+ %s e) %s)" % (lin(T[r], v), lin(C[r], v)))
                q.add("(> %s (* %s n))" % (absv("d"), rat(TOL)))
                out.append(q.run(cross=(r == 0)))
                # white and there-and-back
                q2 = glue.Query("c06-%s-%s-white-back-row%d" % (CP_NAMES[i], CP_NAMES[o], r),
                                "white (1,1,1) maps to 1 within 1e-5, and converting there and back returns v within 1e-5 (v in [-0.5,2]^3)")
                q2.real("e", -rho, rho)
                v = [q2.real("v%d" % j, BOX[0], BOX[1]) for j in range(3)]
                mid = []
                for s in range(3):
                    rs = glue.rho_dot3(T[s], [2, 2, 2])
                    q2.real("e%d" % s, -rs, rs)
                    mid.append(q2.define("m%d" % s, "(+ %s e%d)" % (lin(T[s], v), s)))
                mmax = [sum(abs(x) for x in T[s]) * 2 + F(1, 1000) for s in range(3)]
                rb = glue.rho_dot3(Tb[r], mmax)
                q2.real("eb", -rb, rb)
                q2.define("back", "(+ %s eb)" % lin(Tb[r], mid))
                q2.define("white", "(+ %s e)" % rat(sum(T[r])))
                q2.add("(or (> %s %s) (> %s %s))" % (absv("(- white 1.0)"), rat(TOL), absv("(- back v%d)" % r), rat(TOL)))
                out.append(q2.run(cross=False))
        import struct
        fb = lambda v: "%x" % struct.unpack("<I", struct.pack("<f", float(v)))[0]
        for q in out:
            if q["status"] == "sat":
                m = glue.parse_model(q.get("model", ""))
                nm = q["name"].split("-")
                inv = {v: k for k, v in CP_NAMES.items()}
                i, o = inv.get(nm[1]), inv.get(nm[2])
                cands = []
                if all(("v%d" % j) in m for j in range(3)):
                    cands.append([m["v0"], m["v1"], m["v2"]])
                cands += [[1, 1, 1], [1, 0, 0], [0, 1, 0], [0, 0, 1], [2, 2, 2], [F(1, 4), F(1, 2), F(3, 4)]]
                rep = None
                for c in cands:
                    rep = native.replay_native(ctx, "prim", [i, o] + [fb(x) for x in c], both_profiles=False)
                    if rep.get("reproduced"):
                        break
                q["replay"] = rep
        return out
    p.late = late
    p.glue = [g]
    p.functions = ["transform_primaries, gamut_rgb_to_xyz_matrix, gamut_xyz_to_rgb_matrix, white_point_adaptation_matrix, get_primaries_xy, get_primaries_xyz, get_white_point, xy_to_xyz (src/yuv_rgb/color.rs)",
                   "Matrix::invert / mul_mat / mul_vec / component_mul (yuvxyb-math)", "LinearRgb::try_from(Rgb), Rgb::try_from((LinearRgb,TC,CP))"]
    p.bounds = ["K-lemma: all 20 non-identity conversions (10 primaries x 2 directions)", "W-lemma: every f32 pixel for %d of the 20 conversions%s" % (len(wpairs), "" if thorough else " (quick: BT.2020, ST 428 and two seeded others, both directions)"),
                "glue: all 20 conversions x 3 rows, v real in [-0.5,2]^3; |v| taken as the max norm (stricter than the Euclidean norm)"]
    p.outside = ["arithmetic of mul_arr for full-width coefficients (S-lemma under C01; standard model)", "FMA build"]
    p.assumptions = ["H.273 chromaticities, white points (C, D65, DCI, E) and the Bradford matrix as transcribed in props/C06.py", "IEEE standard model for the dot product", "W-lemma uses the pure stand-in for mul_arr on both sides"]
    p.trusted += ["z3 4.8.12 (QF_LRA), cvc5 cross-check on row 0 of each conversion"]
    return p


MANIFEST = dict(
    z3=True,
    technique="Kani/CBMC: concrete symbolic execution of the real matrix construction (K), public-API wiring for every float pixel (W); z3 over exact rationals against the CIE derivation built from the H.273 chromaticities",
    text="For all 20 conversions the matrix the real code builds is tied bit-for-bit to extracted constants, the public conversion is proved to apply exactly that matrix to every pixel, and z3 proves the per-component error bound against "
         "M_out^-1 * Bradford * M_in computed in exact rational arithmetic from the standard's chromaticities, plus white->white and there-and-back; identical primaries: bit-exact identity for all inputs.",
    note="Trusted: chromaticity transcription, IEEE standard model of the dot product, Kani/CBMC/z3. Non-FMA build.",
)
