"""C03 - transfer characteristics follow their defining curves in both directions."""
from vlib.check import Plan
from props import curves as CV

CURVES = ["BT1886", "BT470M", "BT470BG", "SRGB", "XVYCC", "Log100", "Log316", "PQ", "HLG"]


def plan(tier, seed):
    p = Plan()
    p.stubbing = True
    thorough = tier == "thorough"
    g = 2
    pts = CV.grid(g)        # public-API tie: small grid; the dense grids go through the scalar kernels below
    gs = 10 if thorough else 6
    spts = CV.grid(gs)
    chunk = 96
    txt = CV.PRELUDE + CV.ALIAS + CV.SEGMENTS
    hs = [dict(name="k_cv_alias_identity", family="alias", timeout=900, mem_gb=10, replay=CV.replay_curve, rk="all", curve="BT1886",
               obligation="ST 170M, ST 240M, BT.2020-10/12 are bit-identical to BT.1886 in both directions; Linear is the bit-exact identity",
               sym="x: all 2^32 f32 bit patterns (powf/expf replaced on both sides by one pure argument-sensitive stand-in)", covers=["NaN explored"]),
          ]
    if thorough:
        hs.append(dict(name="k_cv_segments", family="segments", timeout=3000, mem_gb=10, replay=CV.replay_curve, rk="all", curve="SRGB",
               obligation="arithmetic segments against their defining formulas: sRGB linear parts, HLG below the knee (x^2/3, sqrt(3x), round trip on [0,0.5]), log curves clip to 0",
               sym="x: every f32 in [0,1] with <= 10 significant mantissa bits", covers=["upper range explored"]))
    for name in CURVES:
        for tl in (True, False):
            base = pts
            use = [x for x in base if (tl or CV.gamma_domain_ok(name, x))]
            for c in range(0, len(use), chunk):
                sub = use[c:c + chunk]
                n, code = CV.acc_harness(name, tl, sub, c // chunk)
                txt += code
                hs.append(dict(name=n, family="accuracy", timeout=2400 if name == "PQ" else 1200, mem_gb=10, replay=CV.replay_curve, rk="grid", mode="lin" if tl else "gam", curve=name,
                               xs=[CV.bits_of(x) for x in sub],
                               obligation="%s %s within %.1e of the defining formula (real fast powf/expf)" % (name, "gamma->linear" if tl else "linear->gamma", CV.tol(name, tl)),
                               sym="x on the reduced-precision grid: %d inputs with <= %d mantissa bits, exponents -12..-1, plus 0 and 1 (symbolic index)" % (len(sub), g),
                               covers=["last grid point explored"]))
    stxt = CV.SCALAR_PRELUDE
    for name in CURVES:
        for tl in (True, False):
            base = spts if name != "PQ" else CV.grid(5 if thorough else 2)
            use = [x for x in base if (tl or CV.gamma_domain_ok(name, x))]
            ch = 2048 if name != "PQ" else 32
            for c in range(0, len(use), ch):
                sub = use[c:c + ch]
                n, code = CV.acc_scalar(name, tl, sub, c // ch)
                stxt += code
                hs.append(dict(name=n, family="accuracy-scalar", timeout=2400, mem_gb=10, replay=CV.replay_curve, rk="grid", mode="lin" if tl else "gam", curve=name, xs=[CV.bits_of(x) for x in sub],
                               obligation="%s %s scalar kernel within %.1e of the defining formula (real fast powf/expf)" % (name, "gamma->linear" if tl else "linear->gamma", CV.tol(name, tl)),
                               sym="x on the reduced-precision grid: %d inputs with <= %d mantissa bits, exponents -12..-1, plus 0 and 1 (symbolic index)" % (len(sub), gs if name != "PQ" else (5 if thorough else 2)),
                               covers=["last grid point explored"]))
    stxt += "}\n"
    p.modules.append(("src/yuv_rgb/transfer.rs", stxt))
    txt += CV.EPILOGUE
    p.modules.append(("src/lib.rs", txt))
    p.modules.append(("src/yuv_rgb/transfer.rs", CV.formula_module()))
    names = ["BT1886", "ST170M", "ST240M", "BT2020Ten", "BT2020Twelve", "BT470M", "BT470BG", "SRGB", "XVYCC", "Log100", "Log316", "PQ", "HLG", "Linear"]
    for i, nm in enumerate(names):
        for d in ("lin", "gam"):
            if d == "gam" and nm == "HLG":
                continue     # sqrt / ln on both branches: nothing to compare bit for bit (numeric check in k_cv_segments)
            if nm == "PQ" and not thorough:
                continue     # 20+ minutes each (four stand-in powf calls around float divisions): thorough tier only
            hs.append(dict(name="k_cv_formula_%s_%d" % (d, i), family="formula", timeout=3600 if nm == "PQ" else 1500, mem_gb=10, replay=CV.replay_formula, mode=d, ti=i,
                           obligation="formula-level differential, %s %s: for every f32 input the real dispatch + curve code is bit-identical to a reference model re-transcribed from the curve's definition (exponent, knee, branch order, constants), powf/expf replaced on both sides by one pure stand-in%s" % (
                               nm, "gamma->linear" if d == "lin" else "linear->gamma", " (branches through log10 excluded)" if (d == "gam" and nm.startswith("Log")) else ""),
                           sym="x: all 2^32 bit patterns", covers=[]))
    p.harnesses = hs
    p.functions = ["TransferFunction::to_linear / to_gamma and all 18 scalar curves + image_transfer_fn! (src/yuv_rgb/transfer.rs)", "yuvxyb_math::powf / expf / exp2 / log2 (real, in the accuracy harnesses)",
                   "LinearRgb::try_from(Rgb), Rgb::try_from((LinearRgb, TC, CP)) (public API, 1-pixel images)"]
    p.bounds = ["aliases / identity: all 2^32 inputs; arithmetic segments (thorough tier): every f32 in [0,1] with <= 10 mantissa bits", "formula-level differential: 14 curves x 2 directions; all 2^32 inputs for the division-free curves, inputs with <= 10 significant mantissa bits (all exponents and signs) for sRGB/xvYCC/PQ/HLG whose formulas divide",
                "accuracy vs the defining formulas: scalar kernels on inputs with <= %d significant mantissa bits in [2^-12, 1) plus 0 and 1 (%d inputs per curve and direction; PQ: %d inputs, it costs seconds of SAT time per input), plus a %d-input tie through the public API; oracle = Python decimal (40 digits) evaluation of the H.273 / BT.2100 formulas" % (gs, len(spts), len(CV.grid(5 if thorough else 2)), len(pts))]
    p.outside = ["inputs with more mantissa bits than the grid (the property's 1,065,353,217 inputs per curve): ~0.1-0.3 s of SAT time per input",
                 "linear->gamma of Log100, Log316 above their thresholds and of HLG above 1/12: evaluated through log10/ln, which Kani over-approximates"]
    p.assumptions = ["defining formulas as transcribed in props/curves.py (BT.1886 pure 2.4 power, IEC sRGB, BT.2100 scene-referred PQ/HLG with the 1.099/0.018/59.5208 OOTF constants)"]
    return p


MANIFEST = dict(
    technique="bounded model checking of the real curves and fast powf/expf through the public API (Kani/CBMC): full-domain bit-identity lemmas; accuracy against decimal-precision oracles on a symbolic reduced-precision input grid",
    text="Alias/identity clauses decided for all 2^32 inputs; arithmetic segments for every f32 in [0,1]; the accuracy clause only for inputs on a reduced-precision grid (width bound on the mantissa: 770 inputs per curve/direction quick, 12290 thorough; PQ 50 / 386) - "
         "good at catching wrong constants, swapped arms, knee errors and polynomial typos, useless as a proof of the 2^30-point claim.",
    note="Accuracy is bounded to the grid; log-based to_gamma segments are outside (ln/log10 unmodelled). Non-FMA build.",
)
