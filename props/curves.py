"""Transfer-curve harness family (C03, C10).

Oracles: the curves' defining formulas evaluated by Python's decimal module (40 digits) on a grid of
reduced-precision inputs; the grid index is the symbolic variable, so the solver covers exactly the
stated finite input set (a width bound on the mantissa, see DESIGN 5.C03)."""
import struct
from decimal import Decimal as D, getcontext

from vlib import native

getcontext().prec = 40

TC = {"BT1886": 1, "BT470M": 4, "BT470BG": 5, "ST170M": 6, "ST240M": 7, "Linear": 8, "Log100": 9, "Log316": 10, "XVYCC": 11, "SRGB": 13,
      "BT2020Ten": 14, "BT2020Twelve": 15, "PQ": 16, "HLG": 18}
ALIASES = ["ST170M", "ST240M", "BT2020Ten", "BT2020Twelve"]


def f32_of_bits(b):
    return struct.unpack("<f", struct.pack("<I", b))[0]


def bits_of(x):
    return struct.unpack("<I", struct.pack("<f", x))[0]


def dpow(x, y):
    x = D(x)
    if x == 0:
        return D(0)
    return x ** D(y)


def g709(e, a=D("1.099"), b=D("0.018")):
    return D("4.5") * e if e < b else a * dpow(e, D("0.45")) - (a - 1)


def g709i(v, a=D("1.099"), b=D("0.018")):
    return v / D("4.5") if v < D("4.5") * b else dpow((v + (a - 1)) / a, 1 / D("0.45"))


M1, M2 = D(2610) / D(16384), D(2523) / D(32)
C1, C2, C3 = D(3424) / D(4096), D(2413) / D(128), D(2392) / D(128)
HA, HB, HC = D("0.17883277"), D("0.28466892"), D("0.55991073")


def pq_inv_eotf(y):
    p = dpow(y, M1)
    return dpow((C1 + C2 * p) / (1 + C3 * p), M2)


def pq_eotf(v):
    p = dpow(v, 1 / M2)
    num = max(p - C1, D(0))
    return dpow(num / (C2 - C3 * p), 1 / M1)


def define(name, to_linear, x):
    """defining formula (ITU-T H.273 / BT.2100 scene-referred forms), exact decimal arithmetic"""
    x = D(x)
    if name in ("BT1886", "XVYCC") or name in ALIASES:
        return dpow(x, D("2.4")) if to_linear else dpow(x, 1 / D("2.4"))
    if name == "BT470M":
        return dpow(x, D("2.2")) if to_linear else dpow(x, 1 / D("2.2"))
    if name == "BT470BG":
        return dpow(x, D("2.8")) if to_linear else dpow(x, 1 / D("2.8"))
    if name == "SRGB":
        if to_linear:
            return x / D("12.92") if x <= D("0.04045") else dpow((x + D("0.055")) / D("1.055"), D("2.4"))
        return D("12.92") * x if x <= D("0.0031308") else D("1.055") * dpow(x, 1 / D("2.4")) - D("0.055")
    if name == "Log100":
        if to_linear:
            return dpow(D(10), 2 * (x - 1))
        return D(0) if x < D("0.01") else 1 + x.log10() / 2
    if name == "Log316":
        if to_linear:
            return dpow(D(10), D("2.5") * (x - 1))
        return D(0) if x < D(10).sqrt() / 1000 else 1 + x.log10() / D("2.5")
    if name == "PQ":
        if to_linear:
            return g709i(dpow(100 * pq_eotf(x), 1 / D("2.4"))) / D("59.5208")
        return pq_inv_eotf(dpow(g709(D("59.5208") * x), D("2.4")) / 100)
    if name == "HLG":
        if to_linear:
            return x * x / 3 if x <= D("0.5") else (((x - HC) / HA).exp() + HB) / 12
        return (3 * x).sqrt() if x <= D(1) / 12 else HA * (12 * x - HB).ln() + HC
    if name == "Linear":
        return x
    raise KeyError(name)


def grid(g, emin=-12):
    """every f32 in (0,1) with at most g mantissa bits and exponent >= emin, plus 0 and 1"""
    pts = [0.0]
    for e in range(emin, 0):
        for m in range(1 << g):
            pts.append((1.0 + m / float(1 << g)) * 2.0 ** e)
    pts.append(1.0)
    return pts


def tol(name, to_linear):
    return 5.7e-4 if (name == "PQ" and not to_linear) else 2.5e-4


# curves whose to_gamma is evaluated through ln/log10 (over-approximated by Kani: no numeric verdict possible)
def gamma_domain_ok(name, x):
    if name in ("Log100", "Log316"):
        return x <= (0.01 if name == "Log100" else 0.0031622)     # only the clipped segment is arithmetic
    if name == "HLG":
        return x <= 1.0 / 12.0
    return True


PRELUDE = r'''
#[cfg(kani)]
#[allow(dead_code, unused_imports, clippy::all, clippy::pedantic, clippy::nursery)]
mod verif_curves {
    use crate::verif_common::*;
    use crate::*;
    fn lin1(t: TC, x: f32) -> f32 {
        let o = LinearRgb::try_from(Rgb::new(vec![[x, 0.5, 0.25]], 1, 1, t, CP::BT709).unwrap()).unwrap();
        o.data()[0][0]
    }
    fn gam1(t: TC, x: f32) -> f32 {
        let o = Rgb::try_from((LinearRgb::new(vec![[x, 0.5, 0.25]], 1, 1).unwrap(), t, CP::BT709)).unwrap();
        o.data()[0][0]
    }
    fn stub_powf(x: f32, y: f32) -> f32 { f32::from_bits(x.to_bits() ^ y.to_bits().rotate_left(7) ^ 0x5555_5555) }
    fn stub_expf(x: f32) -> f32 { f32::from_bits(x.to_bits().rotate_left(3) ^ 0x0F0F_0F0F) }
'''
EPILOGUE = "}\n"


def acc_harness(name, to_linear, pts, chunk):
    idx = TC[name]
    hname = "k_cv_acc_%s_%s_%d" % ("lin" if to_linear else "gam", name.lower(), chunk)
    xs = [bits_of(p) for p in pts]
    want = [define(name, to_linear, D(f32_of_bits(b))) for b in xs]
    return hname, r'''
    #[kani::proof]
    #[kani::unwind(5)]
    fn %(hname)s() {
        const XS: [u32; %(n)d] = [%(xs)s];
        const WANT: [f64; %(n)d] = [%(want)s];
        let in_i: usize = kani::any();
        kani::assume(in_i < %(n)d);
        let x = f32::from_bits(XS[in_i]);
        let y = %(fn)s(TC_ALL[%(idx)d], x);
        assert!((y as f64 - WANT[in_i]).abs() < %(tol)s, "%(desc)s");
        kani::cover!(in_i == %(n)d - 1, "last grid point explored");
    }
''' % dict(hname=hname, n=len(xs), xs=", ".join(str(b) for b in xs), want=", ".join("%.17e" % float(w) for w in want),
           fn="lin1" if to_linear else "gam1", idx=idx, tol="%.4e" % tol(name, to_linear),
           desc="%s %s within %.1e of its defining formula" % (name, "gamma->linear" if to_linear else "linear->gamma", tol(name, to_linear)))


def rt_harness(name, pts, chunk):
    idx = TC[name]
    hname = "k_cv_rt_%s_%d" % (name.lower(), chunk)
    xs = [bits_of(p) for p in pts]
    t = 5.7e-4 if name == "PQ" else 2.5e-4
    return hname, r'''
    #[kani::proof]
    #[kani::unwind(5)]
    fn %(hname)s() {
        const XS: [u32; %(n)d] = [%(xs)s];
        let in_i: usize = kani::any();
        kani::assume(in_i < %(n)d);
        let x = f32::from_bits(XS[in_i]);
        let y = gam1(TC_ALL[%(idx)d], lin1(TC_ALL[%(idx)d], x));
        assert!((y - x).abs() < %(tol)s, "%(desc)s");
        kani::cover!(in_i == %(n)d - 1, "last grid point explored");
    }
''' % dict(hname=hname, n=len(xs), xs=", ".join(str(b) for b in xs), idx=idx, tol="%.4e" % t,
           desc="%s gamma->linear->gamma returns x within %.1e" % (name, t))


ALIAS = r'''
    #[kani::proof]
    #[kani::unwind(5)]
    #[kani::stub(yuvxyb_math::pow_exp::powf, stub_powf)]
    #[kani::stub(yuvxyb_math::pow_exp::expf, stub_expf)]
    fn k_cv_alias_identity() {
        let in_x: f32 = kani::any();
        let a = lin1(TC::BT1886, in_x).to_bits();
        let b = gam1(TC::BT1886, in_x).to_bits();
        for t in [TC::ST170M, TC::ST240M, TC::BT2020Ten, TC::BT2020Twelve] {
            assert!(lin1(t, in_x).to_bits() == a, "aliases of BT.1886 give bit-identical gamma->linear results");
            assert!(gam1(t, in_x).to_bits() == b, "aliases of BT.1886 give bit-identical linear->gamma results");
        }
        assert!(lin1(TC::Linear, in_x).to_bits() == in_x.to_bits() && gam1(TC::Linear, in_x).to_bits() == in_x.to_bits(), "Linear is the bit-exact identity");
        // the stand-in is argument-sensitive: a different exponent or curve would show
        assert!(lin1(TC::BT470M, 0.5).to_bits() != lin1(TC::BT1886, 0.5).to_bits(), "stand-in distinguishes exponents");
        kani::cover!(in_x.is_nan(), "NaN explored");
    }
'''

SEGMENTS = r'''
    #[kani::proof]
    #[kani::unwind(5)]
    fn k_cv_segments() {
        let in_b: u32 = kani::any();
        let in_x: f32 = f32::from_bits(in_b & 0xFFFF_E000);      // <= 10 significant mantissa bits
        kani::assume(in_x >= 0.0 && in_x <= 1.0);
        let x = in_x as f64;
        // sRGB linear segments (defining formula x/12.92 below 0.04045, 12.92x below 0.0031308); the library's knees are
        // 12.92*SRGB_BETA and SRGB_BETA, so only the part below both knees is claimed here
        if in_x < 0.0030 {
            assert!((gam1(TC::SRGB, in_x) as f64 - 12.92 * x).abs() < 2.5e-4, "sRGB linear->gamma linear segment");
        }
        if in_x < 0.039 {
            assert!((lin1(TC::SRGB, in_x) as f64 - x / 12.92).abs() < 2.5e-4, "sRGB gamma->linear linear segment");
        }
        // HLG below the knee: E'^2/3 and sqrt(3E); round trip on [0,0.5]
        if in_x <= 0.5 {
            let l = lin1(TC::HybridLogGamma, in_x);
            assert!((l as f64 - x * x / 3.0).abs() < 2.5e-4, "HLG gamma->linear below the knee");
            assert!((gam1(TC::HybridLogGamma, l) - in_x).abs() < 2.5e-4, "HLG round trip on [0,0.5]");
        }
        if in_x <= 0.0833 {
            let s = gam1(TC::HybridLogGamma, in_x) as f64;
            assert!((s * s - 3.0 * x).abs() < 2.5e-4 * (2.0 * s + 2.5e-4), "HLG linear->gamma below the knee is sqrt(3E)");
        }
        // the log curves clip to 0 below their thresholds
        if in_x < 0.0099 { assert!(gam1(TC::Logarithmic100, in_x) == 0.0, "Log100 clips below 0.01"); }
        if in_x < 0.00316 { assert!(gam1(TC::Logarithmic316, in_x) == 0.0, "Log316 clips below sqrt(10)/1000"); }
        kani::cover!(in_x > 0.4, "upper range explored");
    }
'''


def replay_curve(ctx, spec, f):
    ins = {k: int(v["bin"], 2) for k, v in (f.get("inputs") or {}).items()}
    k = spec["rk"]
    if k == "grid":
        if "in_i" not in ins or ins["in_i"] >= len(spec["xs"]):
            return {"reproduced": None, "detail": "grid index not found"}
        return native.replay_native(ctx, "curve", [spec["mode"], TC[spec["curve"]], "%x" % spec["xs"][ins["in_i"]]])
    if "in_x" not in ins:
        return {"reproduced": None, "detail": "input not found"}
    outs = []
    for name in (ALIASES + ["Linear", "SRGB", "HLG", "Log100", "Log316"]) if k == "all" else [spec["curve"]]:
        for mode in ("lin", "gam", "rt"):
            r = native.replay_native(ctx, "curve", [mode, TC[name], "%x" % ins["in_x"]], both_profiles=False)
            if r.get("reproduced"):
                return r
            outs.append(r)
    return outs[-1] if outs else {"reproduced": None, "detail": "no replay"}


# ---------------------------------------------------------------------------------------------
# Formula-level differential (full domain): the real dispatch + curve code vs a reference model
# transcribed from the pinned formulas (constants written out again here), with powf/expf
# replaced on BOTH sides by the same pure argument-sensitive stand-in.  It decides, for every f32
# input, that each supported TransferCharacteristic dispatches to the right curve with the right
# exponent, knee, branch order and constants.  Numeric accuracy of powf/expf is NOT part of it.
FORMULA = r'''
#[cfg(kani)]
#[allow(dead_code, unused_imports, clippy::all, clippy::pedantic, clippy::nursery, clippy::excessive_precision)]
mod verif_tr_formula {
    use super::*;
    use av_data::pixel::TransferCharacteristic as TC;
    fn stub_powf(x: f32, y: f32) -> f32 { f32::from_bits(x.to_bits() ^ y.to_bits().rotate_left(7) ^ 0x5555_5555) }
    fn stub_expf(x: f32) -> f32 { f32::from_bits(x.to_bits().rotate_left(3) ^ 0x0F0F_0F0F) }
    fn p(x: f32, y: f32) -> f32 { stub_powf(x, y) }       // the reference calls the stand-in directly
    fn e(x: f32) -> f32 { stub_expf(x) }

    // ---- reference model (BT.709 precise alpha/beta, sRGB adjusted for C1 continuity, ST 2084, ARIB STD-B67)
    const A709: f32 = 1.099_296_8; const B709: f32 = 0.018_053_97;
    const ASRGB: f32 = 1.055_010_7; const BSRGB: f32 = 0.003_041_282_5;
    const M1: f32 = 0.159_301_76; const M2: f32 = 78.84375; const C1: f32 = 0.835_937_5; const C2: f32 = 18.851_563; const C3: f32 = 18.6875;
    const OOTF: f32 = 59.490_803;
    const HA: f32 = 0.178_832_77; const HB: f32 = 0.284_668_92; const HC: f32 = 0.559_910_7;
    fn r709_oetf(x: f32) -> f32 { let x = x.max(0.0); if x < B709 { x * 4.5 } else { A709.mul_add(p(x, 0.45), -(A709 - 1.0)) } }
    fn r709_inv(x: f32) -> f32 { let x = x.max(0.0); if x < 4.5 * B709 { x / 4.5 } else { p((x + (A709 - 1.0)) / A709, 1.0 / 0.45) } }
    fn gpow(x: f32, g: f32) -> f32 { if x < 0.0 { 0.0 } else { p(x, g) } }
    /// Some(v): the reference value; None: the branch goes through ln/log10 (over-approximated by Kani), nothing to compare
    fn ref_to_linear(t: TC, x: f32) -> Option<f32> {
        Some(match t {
            TC::BT1886 | TC::ST170M | TC::ST240M | TC::BT2020Ten | TC::BT2020Twelve => gpow(x, 2.4),
            TC::BT470M => gpow(x, 2.2),
            TC::BT470BG => gpow(x, 2.8),
            TC::XVYCC => if (0.0..=1.0).contains(&x) { gpow(x.abs(), 2.4).copysign(x) } else { r709_inv(x.abs()).copysign(x) },
            TC::SRGB => { let x = x.max(0.0); if x < 12.92 * BSRGB { x / 12.92 } else { p((x + (ASRGB - 1.0)) / ASRGB, 2.4) } }
            TC::Logarithmic100 => if x <= 0.0 { 0.01 } else { p(10.0, 2.0 * (x - 1.0)) },
            TC::Logarithmic316 => if x <= 0.0 { 0.003_162_277_6 } else { p(10.0, 2.5 * (x - 1.0)) },
            TC::PerceptualQuantizer => {
                let eotf = if x > 0.0 { let xp = p(x, 1.0 / M2); let num = (xp - C1).max(0.0); let den = C3.mul_add(-xp, C2).max(f32::EPSILON); p(num / den, 1.0 / M1) } else { 0.0 };
                r709_inv(gpow(eotf * 100.0, 1.0 / 2.4)) / OOTF
            }
            TC::HybridLogGamma => { let x = x.max(0.0); if x <= 0.5 { (x * x) * (1.0 / 3.0) } else { (e((x - HC) / HA) + HB) / 12.0 } }
            TC::Linear => x,
            _ => return None,
        })
    }
    fn ref_to_gamma(t: TC, x: f32) -> Option<f32> {
        Some(match t {
            TC::BT1886 | TC::ST170M | TC::ST240M | TC::BT2020Ten | TC::BT2020Twelve => gpow(x, 1.0 / 2.4),
            TC::BT470M => gpow(x, 1.0 / 2.2),
            TC::BT470BG => gpow(x, 1.0 / 2.8),
            TC::XVYCC => if (0.0..=1.0).contains(&x) { gpow(x.abs(), 1.0 / 2.4).copysign(x) } else { r709_oetf(x.abs()).copysign(x) },
            TC::SRGB => { let x = x.max(0.0); if x < BSRGB { x * 12.92 } else { ASRGB.mul_add(p(x, 1.0 / 2.4), -(ASRGB - 1.0)) } }
            TC::Logarithmic100 => if x <= 0.01 { 0.0 } else { return None },
            TC::Logarithmic316 => if x <= 0.003_162_277_6 { 0.0 } else { return None },
            TC::PerceptualQuantizer => {
                let o = gpow(r709_oetf(x * OOTF), 2.4) / 100.0;
                if o > 0.0 { let xp = p(o, M1); let num = (C2 - C3).mul_add(xp, C1 - 1.0); let den = C3.mul_add(xp, 1.0); p(1.0 + num / den, M2) } else { 0.0 }
            }
            TC::HybridLogGamma => return None,   // sqrt below the knee, ln above: compared numerically in k_cv_segments instead
            TC::Linear => x,
            _ => return None,
        })
    }
    // curves whose formula contains a float division need the input restricted to 10 significant mantissa bits (all exponents,
    // both signs, NaN/inf included): proving two copies of a 24-bit divider equivalent for full-width inputs does not finish
    const FULL: u32 = 0xFFFF_FFFF; const M10: u32 = 0xFFFF_E000;
    const XMASK: [u32; 14] = [FULL, FULL, FULL, FULL, FULL, FULL, FULL, M10, M10, FULL, FULL, M10, M10, FULL];
    const GMASK: [u32; 14] = [FULL, FULL, FULL, FULL, FULL, FULL, FULL, FULL, M10, FULL, FULL, M10, FULL, FULL];
    const SUP: [TC; 14] = [TC::BT1886, TC::ST170M, TC::ST240M, TC::BT2020Ten, TC::BT2020Twelve, TC::BT470M, TC::BT470BG, TC::SRGB, TC::XVYCC,
        TC::Logarithmic100, TC::Logarithmic316, TC::PerceptualQuantizer, TC::HybridLogGamma, TC::Linear];

    // the curve is a concrete parameter (one instance per curve and direction, all 28 run): a symbolic curve in front of the
    // float formulas makes every branch of every curve part of one query (> 30 min)
    fn formula_lin(in_t: usize) {
        let in_b: u32 = kani::any();
        let in_x: f32 = f32::from_bits(in_b & XMASK[in_t]);
        let t = SUP[in_t];
        let got = t.to_linear(vec![[in_x, 0.5, 0.25]]).unwrap()[0][0];
        if let Some(w) = ref_to_linear(t, in_x) {
            assert!(got.to_bits() == w.to_bits() || (got.is_nan() && w.is_nan()), "gamma->linear dispatches to the reference curve (formula, constants, knee, branch order) for every input");
        }
        kani::cover!(in_x > 0.5 && in_x < 1.0, "upper half of [0,1] explored");
    }
    fn formula_gam(in_t: usize) {
        let in_b: u32 = kani::any();
        let in_x: f32 = f32::from_bits(in_b & GMASK[in_t]);
        let t = SUP[in_t];
        if let Some(w) = ref_to_gamma(t, in_x) {
            let got = t.to_gamma(vec![[in_x, 0.5, 0.25]]).unwrap()[0][0];
            assert!(got.to_bits() == w.to_bits() || (got.is_nan() && w.is_nan()), "linear->gamma dispatches to the reference curve (formula, constants, knee, branch order) for every input");
        }
        kani::cover!(in_x > 0.0 && in_x < 0.001, "low end of [0,1] explored");
    }
@INSTANCES@
}
'''
SUP_IDX = [1, 6, 7, 14, 15, 4, 5, 13, 11, 9, 10, 16, 18, 8]     # TC_ALL indices in the order of SUP above


def formula_module():
    inst = ""
    for i in range(14):
        for d in ("lin", "gam"):
            inst += ("    #[kani::proof]\n    #[kani::unwind(5)]\n    #[kani::stub(yuvxyb_math::pow_exp::powf, stub_powf)]\n"
                     "    #[kani::stub(yuvxyb_math::pow_exp::expf, stub_expf)]\n    fn k_cv_formula_%s_%d() { formula_%s(%d) }\n" % (d, i, d, i))
    return FORMULA.replace("@INSTANCES@", inst)


def replay_formula(ctx, spec, f):
    ins = {k: int(v["bin"], 2) for k, v in (f.get("inputs") or {}).items()}
    ins["in_t"] = spec["ti"]
    if "in_x" not in ins:
        return {"reproduced": None, "detail": "input not found"}
    import struct
    fb = lambda v: "%x" % struct.unpack("<I", struct.pack("<f", v))[0]
    idxs = [SUP_IDX[ins["in_t"]]] if ("in_t" in ins and ins["in_t"] < 14) else SUP_IDX
    last = None
    # the solver's input first, then a few probes of [0,1]: the stand-in makes any formula difference visible at every input,
    # the real curves may need a particular region
    xs = ["%x" % ins["in_x"]] + [fb(v) for v in (0.001, 0.01, 0.02, 0.05, 0.1, 0.25, 0.5, 0.6, 0.75, 0.9, 1.0)]
    for idx in idxs:
        for x in xs:
            for mode in (spec["mode"], "rt"):
                last = native.replay_native(ctx, "curve", [mode, idx, x], both_profiles=False)
                if last.get("reproduced"):
                    return last
    return last


# ---------------------------------------------------------------------------------------------
# Scalar-kernel accuracy harnesses (appended to src/yuv_rgb/transfer.rs): same oracle and tolerance as acc_harness, but the
# private scalar curve is called directly, which is ~50x cheaper per input than going through the Vec-based public API, so the
# grids can be much denser.  That the public API dispatches to exactly these scalar kernels is the formula-level differential
# and the pointwise lemma (C11).
SCALAR = {("BT1886", True): "rec_1886_eotf", ("BT1886", False): "rec_1886_inverse_eotf", ("BT470M", True): "rec_470m_oetf", ("BT470M", False): "rec_470m_inverse_oetf",
          ("BT470BG", True): "rec_470bg_oetf", ("BT470BG", False): "rec_470bg_inverse_oetf", ("SRGB", True): "srgb_eotf", ("SRGB", False): "srgb_inverse_eotf",
          ("XVYCC", True): "xvycc_eotf", ("XVYCC", False): "xvycc_inverse_eotf", ("Log100", True): "log100_inverse_oetf", ("Log100", False): "log100_oetf",
          ("Log316", True): "log316_inverse_oetf", ("Log316", False): "log316_oetf", ("PQ", True): "st_2084_inverse_oetf", ("PQ", False): "st_2084_oetf",
          ("HLG", True): "arib_b67_inverse_oetf", ("HLG", False): "arib_b67_oetf"}
SCALAR_PRELUDE = """
#[cfg(kani)]
#[allow(dead_code, unused_imports, clippy::all, clippy::pedantic, clippy::nursery)]
mod verif_tr_scalar {
    use super::*;
"""


def acc_scalar(name, to_linear, pts, chunk):
    hname = "k_cv_sacc_%s_%s_%d" % ("lin" if to_linear else "gam", name.lower(), chunk)
    xs = [bits_of(p) for p in pts]
    want = [define(name, to_linear, D(f32_of_bits(b))) for b in xs]
    return hname, r"""
    #[kani::proof]
    fn %(hname)s() {
        const XS: [u32; %(n)d] = [%(xs)s];
        const WANT: [f64; %(n)d] = [%(want)s];
        let in_i: usize = kani::any();
        kani::assume(in_i < %(n)d);
        let y = %(fn)s(f32::from_bits(XS[in_i]));
        assert!((y as f64 - WANT[in_i]).abs() < %(tol)s, "%(desc)s");
        kani::cover!(in_i == %(n)d - 1, "last grid point explored");
    }
""" % dict(hname=hname, n=len(xs), xs=", ".join(str(b) for b in xs), want=", ".join("%.17e" % float(w) for w in want), fn=SCALAR[(name, to_linear)],
           tol="%.4e" % tol(name, to_linear), desc="%s %s (scalar kernel) within %.1e of its defining formula" % (name, "gamma->linear" if to_linear else "linear->gamma", tol(name, to_linear)))


def rt_scalar(name, pts, chunk):
    hname = "k_cv_srt_%s_%d" % (name.lower(), chunk)
    xs = [bits_of(p) for p in pts]
    t = 5.7e-4 if name == "PQ" else 2.5e-4
    return hname, r"""
    #[kani::proof]
    fn %(hname)s() {
        const XS: [u32; %(n)d] = [%(xs)s];
        let in_i: usize = kani::any();
        kani::assume(in_i < %(n)d);
        let x = f32::from_bits(XS[in_i]);
        let y = %(g)s(%(l)s(x));
        assert!((y - x).abs() < %(tol)s, "%(desc)s");
        kani::cover!(in_i == %(n)d - 1, "last grid point explored");
    }
""" % dict(hname=hname, n=len(xs), xs=", ".join(str(b) for b in xs), l=SCALAR[(name, True)], g=SCALAR[(name, False)], tol="%.4e" % t,
           desc="%s gamma->linear->gamma (scalar kernels) returns x within %.1e" % (name, t))
