"""Transfer-curve harness family (C03, C10).

Oracles: the curves' defining formulas evaluated by Python's decimal module (40 digits) on a grid of
reduced-precision inputs; the grid index is the symbolic variable, so the solver covers exactly the
stated finite input set (a width bound on the mantissa, see DESIGN 5.C03)."""
import struct
from decimal import Decimal as D, getcontext

from vlib import native

getcontext().prec = 40

TC = {"BT1886": 1, "BT470M": 4, "BT470BG": 5, "ST170M": 6, "ST240M": 7, "Linear": 8, "Log100": 9, "Log316": 10, "XVYCC": 11, "SRGB": 13,
      "BT2020Ten": 14, "BT2020Twelve": 15, "PQ": 16, "HLG": 18}
ALIASES = ["ST170M", "ST240M", "BT2020Ten", "BT2020Twelve"]


def f32_of_bits(b):
    return struct.unpack("<f", struct.pack("<I", b))[0]


def bits_of(x):
    return struct.unpack("<I", struct.pack("<f", x))[0]


def dpow(x, y):
    x = D(x)
    if x == 0:
        return D(0)
    return x ** D(y)


def g709(e, a=D("1.099"), b=D("0.018")):
    return D("4.5") * e if e < b else a * dpow(e, D("0.45")) - (a - 1)


def g709i(v, a=D("1.099"), b=D("0.018")):
    return v / D("4.5") if v < D("4.5") * b else dpow((v + (a - 1)) / a, 1 / D("0.45"))


M1, M2 = D(2610) / D(16384), D(2523) / D(32)
C1, C2, C3 = D(3424) / D(4096), D(2413) / D(128), D(2392) / D(128)
HA, HB, HC = D("0.17883277"), D("0.28466892"), D("0.55991073")


def pq_inv_eotf(y):
    p = dpow(y, M1)
    return dpow((C1 + C2 * p) / (1 + C3 * p), M2)


def pq_eotf(v):
    p = dpow(v, 1 / M2)
    num = max(p - C1, D(0))
    return dpow(num / (C2 - C3 * p), 1 / M1)


def define(name, to_linear, x):
    """defining formula (ITU-T H.273 / BT.2100 scene-referred forms), exact decimal arithmetic"""
    x = D(x)
    if name in ("BT1886", "XVYCC") or name in ALIASES:
        return dpow(x, D("2.4")) if to_linear else dpow(x, 1 / D("2.4"))
    if name == "BT470M":
        return dpow(x, D("2.2")) if to_linear else dpow(x, 1 / D("2.2"))
    if name == "BT470BG":
        return dpow(x, D("2.8")) if to_linear else dpow(x, 1 / D("2.8"))
    if name == "SRGB":
        if to_linear:
            return x / D("12.92") if x <= D("0.04045") else dpow((x + D("0.055")) / D("1.055"), D("2.4"))
        return D("12.92") * x if x <= D("0.0031308") else D("1.055") * dpow(x, 1 / D("2.4")) - D("0.055")
    if name == "Log100":
        if to_linear:
            return dpow(D(10), 2 * (x - 1))
        return D(0) if x < D("0.01") else 1 + x.log10() / 2
    if name == "Log316":
        if to_linear:
            return dpow(D(10), D("2.5") * (x - 1))
        return D(0) if x < D(10).sqrt() / 1000 else 1 + x.log10() / D("2.5")
    if name == "PQ":
        if to_linear:
            return g709i(dpow(100 * pq_eotf(x), 1 / D("2.4"))) / D("59.5208")
        return pq_inv_eotf(dpow(g709(D("59.5208") * x), D("2.4")) / 100)
    if name == "HLG":
        if to_linear:
            return x * x / 3 if x <= D("0.5") else (((x - HC) / HA).exp() + HB) / 12
        return (3 * x).sqrt() if x <= D(1) / 12 else HA * (12 * x - HB).ln() + HC
    if name == "Linear":
        return x
    raise KeyError(name)


def grid(g, emin=-12):
    """every f32 in (0,1) with at most g mantissa bits and exponent >= emin, plus 0 and 1"""
    pts = [0.0]
    for e in range(emin, 0):
        for m in range(1 << g):
            pts.append((1.0 + m / float(1 << g)) * 2.0 ** e)
    pts.append(1.0)
    return pts


def tol(name, to_linear):
    return 5.7e-4 if (name == "PQ" and not to_linear) else 2.5e-4


# curves whose to_gamma is evaluated through ln/log10 (over-approximated by Kani: no numeric verdict possible)
def gamma_domain_ok(name, x):
    if name in ("Log100", "Log316"):
        return x <= (0.01 if name == "Log100" else 0.0031622)     # only the clipped segment is arithmetic
    if name == "HLG":
        return x <= 1.0 / 12.0
    return True


PRELUDE = r'''
#[cfg(kani)]
#[allow(dead_code, unused_imports, clippy::all, clippy::pedantic, clippy::nursery)]
mod verif_curves {
    use crate::verif_common::*;
    use crate::*;
    fn lin1(t: TC, x: f32) -> f32 {
        let o = LinearRgb::try_from(Rgb::new(vec![[x, 0.5, 0.25]], 1, 1, t, CP::BT709).unwrap()).unwrap();
        o.data()[0][0]
    }
    fn gam1(t: TC, x: f32) -> f32 {
        let o = Rgb::try_from((LinearRgb::new(vec![[x, 0.5, 0.25]], 1, 1).unwrap(), t, CP::BT709)).unwrap();
        o.data()[0][0]
    }
    fn stub_powf(x: f32, y: f32) -> f32 { f32::from_bits(x.to_bits() ^ y.to_bits().rotate_left(7) ^ 0x5555_5555) }
    fn stub_expf(x: f32) -> f32 { f32::from_bits(x.to_bits().rotate_left(3) ^ 0x0F0F_0F0F) }
'''
EPILOGUE = "}\n"


def acc_harness(name, to_linear, pts, chunk):
    idx = TC[name]
    hname = "k_cv_acc_%s_%s_%d" % ("lin" if to_linear else "gam", name.lower(), chunk)
    xs = [bits_of(p) for p in pts]
    want = [define(name, to_linear, D(f32_of_bits(b))) for b in xs]
    return hname, r'''
    #[kani::proof]
    #[kani::unwind(5)]
    fn %(hname)s() {
        const XS: [u32; %(n)d] = [%(xs)s];
        const WANT: [f64; %(n)d] = [%(want)s];
        let in_i: usize = kani::any();
        kani::assume(in_i < %(n)d);
        let x = f32::from_bits(XS[in_i]);
        let y = %(fn)s(TC_ALL[%(idx)d], x);
        assert!((y as f64 - WANT[in_i]).abs() < %(tol)s, "%(desc)s");
        kani::cover!(in_i == %(n)d - 1, "last grid point explored");
    }
''' % dict(hname=hname, n=len(xs), xs=", ".join(str(b) for b in xs), want=", ".join("%.17e" % float(w) for w in want),
           fn="lin1" if to_linear else "gam1", idx=idx, tol="%.4e" % tol(name, to_linear),
           desc="%s %s within %.1e of its defining formula" % (name, "gamma->linear" if to_linear else "linear->gamma", tol(name, to_linear)))


def rt_harness(name, pts, chunk):
    idx = TC[name]
    hname = "k_cv_rt_%s_%d" % (name.lower(), chunk)
    xs = [bits_of(p) for p in pts]
    t = 5.7e-4 if name == "PQ" else 2.5e-4
    return hname, r'''
    #[kani::proof]
    #[kani::unwind(5)]
    fn %(hname)s() {
        const XS: [u32; %(n)d] = [%(xs)s];
        let in_i: usize = kani::any();
        kani::assume(in_i < %(n)d);
        let x = f32::from_bits(XS[in_i]);
        let y = gam1(TC_ALL[%(idx)d], lin1(TC_ALL[%(idx)d], x));
        assert!((y - x).abs() < %(tol)s, "%(desc)s");
        kani::cover!(in_i == %(n)d - 1, "last grid point explored");
    }
''' % dict(hname=hname, n=len(xs), xs=", ".join(str(b) for b in xs), idx=idx, tol="%.4e" % t,
           desc="%s gamma->linear->gamma returns x within %.1e" % (name, t))


ALIAS = r'''
    #[kani::proof]
    #[kani::unwind(5)]
    #[kani::stub(yuvxyb_math::pow_exp::powf, stub_powf)]
    #[kani::stub(yuvxyb_math::pow_exp::expf, stub_expf)]
    fn k_cv_alias_identity() {
        let in_x: f32 = kani::any();
        let a = lin1(TC::BT1886, in_x).to_bits();
        let b = gam1(TC::BT1886, in_x).to_bits();
        for t in [TC::ST170M, TC::ST240M, TC::BT2020Ten, TC::BT2020Twelve] {
            assert!(lin1(t, in_x).to_bits() == a, "aliases of BT.1886 give bit-identical gamma->linear results");
            assert!(gam1(t, in_x).to_bits() == b, "aliases of BT.1886 give bit-identical linear->gamma results");
        }
        assert!(lin1(TC::Linear, in_x).to_bits() == in_x.to_bits() && gam1(TC::Linear, in_x).to_bits() == in_x.to_bits(), "Linear is the bit-exact identity");
        // the stand-in is argument-sensitive: a different exponent or curve would show
        assert!(lin1(TC::BT470M, 0.5).to_bits() != lin1(TC::BT1886, 0.5).to_bits(), "stand-in distinguishes exponents");
        kani::cover!(in_x.is_nan(), "NaN explored");
    }
'''

SEGMENTS = r'''
    #[kani::proof]
    #[kani::unwind(5)]
    fn k_cv_segments() {
        let in_x: f32 = kani::any();
        kani::assume(in_x >= 0.0 && in_x <= 1.0);
        let x = in_x as f64;
        // sRGB linear segments (defining formula x/12.92 below 0.04045, 12.92x below 0.0031308); the library's knees are
        // 12.92*SRGB_BETA and SRGB_BETA, so only the part below both knees is claimed here
        if in_x < 0.0030 {
            assert!((gam1(TC::SRGB, in_x) as f64 - 12.92 * x).abs() < 2.5e-4, "sRGB linear->gamma linear segment");
        }
        if in_x < 0.039 {
            assert!((lin1(TC::SRGB, in_x) as f64 - x / 12.92).abs() < 2.5e-4, "sRGB gamma->linear linear segment");
        }
        // HLG below the knee: E'^2/3 and sqrt(3E); round trip on [0,0.5]
        if in_x <= 0.5 {
            let l = lin1(TC::HybridLogGamma, in_x);
            assert!((l as f64 - x * x / 3.0).abs() < 2.5e-4, "HLG gamma->linear below the knee");
            assert!((gam1(TC::HybridLogGamma, l) - in_x).abs() < 2.5e-4, "HLG round trip on [0,0.5]");
        }
        if in_x <= 0.0833 {
            let s = gam1(TC::HybridLogGamma, in_x) as f64;
            assert!((s * s - 3.0 * x).abs() < 2.5e-4 * (2.0 * s + 2.5e-4), "HLG linear->gamma below the knee is sqrt(3E)");
        }
        // the log curves clip to 0 below their thresholds
        if in_x < 0.0099 { assert!(gam1(TC::Logarithmic100, in_x) == 0.0, "Log100 clips below 0.01"); }
        if in_x < 0.00316 { assert!(gam1(TC::Logarithmic316, in_x) == 0.0, "Log316 clips below sqrt(10)/1000"); }
        kani::cover!(in_x > 0.4, "upper range explored");
    }
'''


def replay_curve(ctx, spec, f):
    ins = {k: int(v["bin"], 2) for k, v in (f.get("inputs") or {}).items()}
    k = spec["rk"]
    if k == "grid":
        if "in_i" not in ins or ins["in_i"] >= len(spec["xs"]):
            return {"reproduced": None, "detail": "grid index not found"}
        return native.replay_native(ctx, "curve", [spec["mode"], TC[spec["curve"]], "%x" % spec["xs"][ins["in_i"]]])
    if "in_x" not in ins:
        return {"reproduced": None, "detail": "input not found"}
    outs = []
    for name in (ALIASES + ["Linear", "SRGB", "HLG", "Log100", "Log316"]) if k == "all" else [spec["curve"]]:
        for mode in ("lin", "gam", "rt"):
            r = native.replay_native(ctx, "curve", [mode, TC[name], "%x" % ins["in_x"]], both_profiles=False)
            if r.get("reproduced"):
                return r
            outs.append(r)
    return outs[-1] if outs else {"reproduced": None, "detail": "no replay"}
